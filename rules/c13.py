"""C13 -- compute() is memory-safe, terminates within its work bound, never emits NaN (structural clauses)."""
from .facts import AnalysisBroken
from . import paths, zone, ranges, eigsbase, factorization as fz
from .zone import DBM, INF
from .sym import sym, show

EXPLANATION = (
    'Zone abstract interpretation (difference-bound matrices over the integer locals and the symbolic sizes n, nev, ncv; join at '
    'merges, widening at loop heads, narrowing) of the solver-level members of both bases and of the shift solvers, plus alias, '
    'progress and guard rules over the factorization. Decides FOR ALL SIZES (not for ncv <= 14): (D1) under the class invariants '
    'extracted from the constructor guards themselves, the restart size returned by nev_adjusted satisfies 1 <= k <= ncv-1 and '
    'every subscript / head / tail / col of the Ritz arrays, flags, index vectors and local result arrays is within the extent '
    'those arrays are given (init() resizes, local constructors, argsort length); index-vector elements are used only on arrays '
    'at least as long as the vector; (D2) at every application of the operator inside the factorization the input and output '
    'buffers are rooted in different storage objects and local buffers have length n; (D3) every loop on the init/compute call '
    'graph is either monotone (a comparison bound whose variable moves towards it on every back-edge path, bound not written) or '
    'in a table with a progress set that every back-edge path executes (iteration caps included); the operator is applied only at '
    '2 sites outside loops (init), 1 site per step of the factorization loop and 1 site under `first attempt` of the '
    'fresh-direction helper, which runs at most once per step => at most 2 + 2(ncv-1)(maxit+1) <= 2 + 2 ncv (maxit+1) '
    'applications; (D4) divisions by the residual norm are guarded (shared with C07); (D10) modular assume / guarantee proof of '
    'the dense kernels: every member of UpperHessenbergSchur, UpperHessenbergEigen and TridiagEigen is analysed from its '
    'tabulated precondition (linear inequalities over its index parameters and n); every element access, row / column / segment '
    '/ block view, plane-rotation index, raw-pointer subscript and 3-row / 3-column window handed to a Householder kernel is '
    'inside its array; every call establishes the callee\'s precondition; every postcondition (returned deflation index, '
    'start index of the Francis step) holds at every exit; the assumed extents are the ones the classes resize their arrays to. '
    '(D11) Bunch-Kaufman factorization on packed lower-triangular storage: every pointer is modelled as (column, row), every '
    'packed access, view and copied range is inside its column, the layout and the accessors are what the model assumes; (D12) the '
    'pointer-walking kernels of the QR helpers (UpperHessenbergQR compute / RQ / Y Q, TridiagQR::compute, DoubleShiftQR compute / '
    'reflector construction / reflector application to blocks): pointers into column-major storage own a row and a column zone '
    'variable, arithmetic is decomposed by the stride, every dereference, subscript and filled range is inside the array, and the '
    'callers establish the block preconditions of the appliers. '
    'the two scalar Householder appliers of the Schur class stay inside the 3 x ncol / nrow x 3 window their callers establish. '
    'The vectorised applier is covered too: the zone state carries congruences (x - (x & (c-1)) is a multiple of c within c-1 of x; a '
    'counter stepped by c from 0 stays a multiple of c), so `i < peeling_end` yields i + c <= peeling_end and every packet load / store '
    'of PacketSize rows stays below nrow. '
    '(D13) every aligned packet access has alignment evidence for the very column it touches (today: no aligned access at all). '
    '(D14) content invariant of the reflector-size array: every write stores 1, 2 or 3 with size + column <= n (the size-3 case '
    'only at calls whose third argument is not the literal zero), every column of a block gets a size, and the readers use the '
    'invariant: the vector form of apply_PX reads entry k+1 only for size >= 2 and entry k+2 only for size 3. '
    '(D15) BKLDLT::solve_inplace through a block-structure (regular-shape) invariant of the permutation array: the sign string of m_perm is a '
    'word of (P | NN)* -- writers tabulated and checked (reset to 0..n-1, one non-negative store per 1x1 pivot, one adjacent negative pair per 2x2 '
    'pivot marked after the stores, factorization loop advancing by the size of the block it marked) -- every sign-directed scan of the '
    'reader keeps the alignment (one extra step in the negative branch after the last use of the position; forward scans start at 0, the '
    'backward scan one before the last block), and with the positional facts this gives (i + 1 <= n - 1 resp. i - 1 >= 0 at an aligned negative '
    'entry) all index / view sites of solve_inplace are inside their arrays, once for each sign of the last entry; the compressed interchange list '
    'holds pairs in [0, n)^2 only and is rebuilt by every compute(). '
    'Does NOT decide NaN-freedom in general or undefined behaviour outside these clauses.')
ASSUMPTIONS = ['class invariants = negation of the constructor guards (C12 shows they equal the documented ranges)',
               'elements of an index vector returned by the ordering primitive lie in [0, length) (C18: it is a permutation)',
               'the small decompositions of the ncv x ncv matrix H return ncv eigenvalues and ncv x ncv eigenvectors',
               'the number of converged flags is between 0 and nev',
               'the double-shift QR class is used with n >= 2 (the solver bases construct it with ncv >= 3)',
               'DoubleShiftQR::m_near_0 is a positive constant (its default member initialiser is TypeTraits<Scalar>::min() * 10), so |0| < m_near_0',
               'a vector handed to DoubleShiftQR::apply_QtY has length n',
               'a matrix handed to UpperHessenbergQR::apply_YQ has n columns (its callers pass ncv x ncv matrices to a decomposition of size ncv)']

N_, NEV, NCV = ('f', 'm_n'), ('f', 'm_nev'), ('f', 'm_ncv')


def class_invariants(ctx, base):
    """Zone over (m_n, m_nev, m_ncv) implied by the constructor guards: the negation of every rejecting condition."""
    ctors = [f for f in ctx.F.concrete() if f.cls == base and f.d.get('ctor')]
    if not ctors:
        raise AnalysisBroken('%s: no constructor analysed' % base)
    out = None
    from .c12 import guards_of_throws
    for c in ctors:
        gs = [(c, g) for g, t in guards_of_throws(c)]
        for x in c.walk():
            if x['k'] == 'CXXMemberCallExpr' and x.get('org') == 'S':
                o = c.call_object(x)
                if o is not None and c.strip(o)['k'] == 'CXXThisExpr':
                    h = ctx.F.resolve(x)
                    if h is not None:
                        gs += [(h, g) for g, t in guards_of_throws(h)]
        if not gs:
            continue
        d = DBM()
        ren = {}
        for gf, g in gs:
            dd = DBM()
            zone.assume(gf, dd, gf.nodes[g['cond']], False)
            for v in gf.params:
                nm = gf.locals[v]['name']
                if nm == 'nev':
                    ren[(id(gf), ('v', v))] = NEV
                if nm == 'ncv':
                    ren[(id(gf), ('v', v))] = NCV
            dd.close()
            for (a, b), cst in dd.m.items():
                a2 = ren.get((id(gf), a), a)
                b2 = ren.get((id(gf), b), b)
                if all(isinstance(z, tuple) and z[0] == 'f' or z == 'Z' for z in (a2, b2)):
                    d.add(a2, b2, cst)
        # the stored ncv is the clamped argument; under the guard ncv <= n they coincide
        d.close()
        out = d if out is None else out.join(d)
    if out is None or out.is_bot():
        raise AnalysisBroken('%s: no class invariant could be extracted from the constructor guards' % base)
    return out


def _extents_of_fields(ctx, base, comp):
    """field -> [linear forms] from the resize calls of init()."""
    ini = [f for f in ctx.F.by_record[comp.record].get('init', []) if len(f.params) == 1]
    if not ini:
        raise AnalysisBroken('%s: init not analysed' % comp.record)
    ini = ini[0]
    ext = {}
    for x in ini.walk():
        if x['k'] == 'CXXMemberCallExpr' and x.get('callee') == 'resize':
            f = ini.field_name(ini.call_object(x))
            if f:
                ext[f] = [zone.linear(ini, a) for a in ini.call_args(x)]
    return ext


DECOMP_EXTENT = {'eigenvalues': 1, 'eigenvectors': 2}     # results of the small decomposition of H: ncv, ncv x ncv


def _local_extents(fn):
    """local name -> ([linear forms], element range linear form or None)"""
    out = {}
    for x in fn.walk():
        if x['k'] != 'DeclStmt':
            continue
        for d in x.get('decls', []):
            if 'var' not in d:
                continue
            lv = fn.locals[d['var']]
            ty = lv['type']
            nm = ('v', d['var'])
            if 'init' not in d:
                continue
            init = fn.nodes[d['init']]
            t = None
            try:
                t = sym(fn, init, inline=False)
            except AnalysisBroken:
                t = None
            core = fn.strip(init, explicit_casts=False)
            if ty.replace('const ', '').startswith(('Eigen::Matrix<', 'Eigen::Array<')) and not ty.endswith('&'):
                if core['k'] in ('CXXConstructExpr', 'CXXTemporaryObjectExpr') and not core.get('copy') and not core.get('move'):
                    args = [zone.linear(fn, a) for a in fn.call_args(core) if a['k'] != 'CXXDefaultArgExpr']
                    if args and all(a is not None for a in args):
                        out[nm] = (args, None)
                        continue
                if t and t[0] in ('tail', 'head') and len(t) == 3:
                    # copy of a segment: length = the segment length
                    c = [y for y in fn.walk(init) if y['k'] == 'CXXMemberCallExpr' and y.get('callee') in ('tail', 'head')]
                    if c:
                        out[nm] = ([zone.linear(fn, fn.call_args(c[0])[0])], None)
                        continue
            if ty.startswith('std::vector<long'):
                if t and t[0] == 'call' and t[1] == 'argsort' and len(t) >= 5:
                    c = [y for y in fn.walk(init) if y['k'] == 'CallExpr' and y.get('callee') == 'argsort']
                    ln = zone.linear(fn, fn.call_args(c[0])[2])
                    out[nm] = ([ln], ln)
                    continue
            if ty.endswith('&') or ty.startswith('const Eigen::') or ty.startswith('Eigen::Matrix<'):
                if t and isinstance(t, tuple) and t[0] in DECOMP_EXTENT and isinstance(t[1], tuple) and t[1][0] == 'L':
                    out[nm] = ([(NCV, 0)] * DECOMP_EXTENT[t[0]], None)
    # index vector filled by `sorter.swap(ind)`: length = the sorter's length argument
    for x in fn.walk():
        if x['k'] == 'CXXMemberCallExpr' and x.get('callee') == 'swap' and x.get('cls') == 'Spectra::SortEigenvalue':
            a = fn.strip(fn.call_args(x)[0])
            o = fn.strip(fn.call_object(x))
            if a['k'] == 'DeclRefExpr' and 'var' in a and o['k'] == 'DeclRefExpr' and 'var' in o:
                for dn in fn.walk():
                    if dn['k'] == 'DeclStmt':
                        for d in dn['decls']:
                            if d.get('var') == o['var'] and 'init' in d:
                                ctor = fn.strip(fn.nodes[d['init']], explicit_casts=False)
                                cargs = fn.call_args(ctor)
                                if len(cargs) == 2:
                                    ln = zone.linear(fn, cargs[1])
                                    prev = out.get(('v', a['var']))
                                    if prev is not None and prev[0] != [ln]:
                                        out[('v', a['var'])] = (None, None)      # arms disagree
                                    else:
                                        out[('v', a['var'])] = ([ln], ln)
    return out


# sites whose bound is a counting argument outside the zone domain: (function, indexed local) -> reason
COUNTING_EXEMPT = {('eigenvalues', 'res'): 'res has one slot per set flag and j counts the set flags seen so far (structure decided by the C05 accessor rule)'}


def _sites(fn):
    """Index-taking sites: (node, base expression node, kind, [index nodes])."""
    out = []
    for x in fn.walk():
        if x['k'] == 'CXXOperatorCallExpr' and x.get('op') in ('[]', '()') and x.get('org') in ('E', 's'):
            a = fn.call_args(x)
            out.append((x, a[0], 'elem', a[1:]))
        elif x['k'] == 'CXXMemberCallExpr' and x.get('org') == 'E' and x.get('callee') in ('col', 'row', 'head', 'tail', 'leftCols', 'rightCols', 'topRows', 'bottomRows', 'coeff', 'coeffRef'):
            out.append((x, fn.call_object(x), x['callee'], fn.call_args(x)))
        elif x['k'] == 'ArraySubscriptExpr' and len(x.get('c', [])) == 2:
            # raw pointer subscript p[i]: a site when the pointer's extent is known (a parameter with a declared extent, or a
            # local that is the data() of an array and is never re-pointed)
            out.append((x, fn.nodes[x['c'][0]], 'elem', [fn.nodes[x['c'][1]]]))
    return out


SIZE_KEEPING = ('setZero', 'setOnes', 'setConstant', 'setRandom', 'fill')


def _elementwise_length(fn, node, fext, lext, depth=0):
    """Length (zone linear form) of a coefficient-wise expression over one-dimensional operands: the length of every operand whose
    extent is known (a field with a declared extent, a local with a constructed / copied extent, a head / tail / segment view).
    Returns the set of distinct lengths found (empty: unknown)."""
    out = set()
    if depth > 4:
        return out
    for x in fn.walk(node['id'] if isinstance(node, dict) else node):
        if x['k'] == 'CXXMemberCallExpr' and x.get('callee') in ('head', 'tail') and x.get('org') == 'E':
            a = fn.call_args(x)
            ln = zone.linear(fn, a[0]) if a else None
            if ln is not None:
                out.add(ln)
        elif x['k'] == 'CXXMemberCallExpr' and x.get('callee') == 'segment' and x.get('org') == 'E':
            a = fn.call_args(x)
            ln = zone.linear(fn, a[1]) if len(a) == 2 else None
            if ln is not None:
                out.add(ln)
        elif x['k'] == 'DeclRefExpr' and 'var' in x and ('v', x['var']) in lext and lext[('v', x['var'])][0] and len(lext[('v', x['var'])][0]) == 1:
            # a whole local array used as an operand (not the object of a view call: those are handled above)
            par = fn.node(fn.parent.get(x['id'], -1))
            while par is not None and par['k'] in ('ImplicitCastExpr', 'ParenExpr', 'MaterializeTemporaryExpr'):
                par = fn.node(fn.parent.get(par['id'], -1))
            if par is not None and par['k'] == 'MemberExpr' and par.get('member') in ('head', 'tail', 'segment'):
                continue
            out.add(lext[('v', x['var'])][0][0])
        elif x['k'] == 'DeclRefExpr' and 'var' in x and x['var'] not in fn.params:
            # a local array initialised by a coefficient-wise expression: its length is that expression's
            lv = fn.locals.get(x['var'])
            if lv is not None and lv['type'].replace('const ', '').startswith(('Eigen::Array<', 'Eigen::Matrix<')) and ('v', x['var']) not in lext:
                for dn in fn.walk():
                    if dn['k'] == 'DeclStmt':
                        for d in dn.get('decls', []):
                            if d.get('var') == x['var'] and 'init' in d:
                                out |= _elementwise_length(fn, fn.nodes[d['init']], fext, lext, depth + 1)
    return out


def field_extents_preserved(ctx, base, comp, fns, fext, rule='index-within-extent'):
    """The index proofs take the extent of each solver array from the resize calls of init().  Every other statement that replaces
    such an array as a whole -- swap with a local, whole-array assignment -- must leave it with the same extent, or the proofs of
    the NEXT member that runs (a compute() that follows another compute() included) rest on a stale size."""
    short = base.replace('Spectra::', '')
    probs = []
    nsite = 0
    for fn in fns:
        if fn.name == 'init' or fn.d.get('ctor'):
            continue
        lext = _local_extents(fn)
        for x in fn.walk():
            if x['k'] == 'CXXMemberCallExpr' and x.get('callee') == 'swap' and x.get('org') == 'E':
                o, a = fn.strip(fn.call_object(x)), fn.strip(fn.call_args(x)[0]) if fn.call_args(x) else None
                pair = [(fn.field_name(o), a), (fn.field_name(a) if a is not None else None, o)]
                for f, other in pair:
                    if f not in fext or other is None:
                        continue
                    nsite += 1
                    of = fn.field_name(other)
                    if of in fext:
                        got = fext[of]
                    elif other['k'] == 'DeclRefExpr' and 'var' in other and ('v', other['var']) in lext:
                        got = lext[('v', other['var'])][0]
                    else:
                        got = None
                    if got is None or any(g_ is None for g_ in got):
                        raise AnalysisBroken('%s::%s: `%s` replaces %s by an object whose extent the analysis cannot determine' % (comp.record, fn.name, fn.s(x)[:50], f))
                    if got != fext[f]:
                        probs.append('%s: `%s` leaves %s with extent %s; init() gives it %s and every index proof assumes that' %
                                     (fn.name, fn.s(x)[:50], f, _fmt_ext(got), _fmt_ext(fext[f])))
            elif x['k'] == 'CXXMemberCallExpr' and x.get('callee') in ('resize', 'conservativeResize') and x.get('org') == 'E':
                f = fn.field_name(fn.strip(fn.call_object(x))) if fn.call_object(x) is not None else None
                if f in fext:
                    nsite += 1
                    got = [zone.linear(fn, a_) for a_ in fn.call_args(x)]
                    if got != fext[f]:
                        probs.append('%s: `%s` gives %s the extent %s instead of %s' % (fn.name, fn.s(x)[:50], f, _fmt_ext(got), _fmt_ext(fext[f])))
            elif x['k'] == 'CXXOperatorCallExpr' and x.get('op') == '=':
                a = fn.call_args(x)
                f = fn.field_name(fn.strip(a[0])) if a else None
                if f in fext and len(fext[f]) == 1:
                    nsite += 1
                    got = _elementwise_length(fn, a[1], fext, lext)
                    if not got:
                        raise AnalysisBroken('%s::%s: `%s` assigns %s an expression whose length the analysis cannot determine' % (comp.record, fn.name, fn.s(x)[:50], f))
                    if len(got) != 1 or list(got)[0] != fext[f][0]:
                        probs.append('%s: `%s` assigns %s an expression of length %s; init() gives it %s' %
                                     (fn.name, fn.s(x)[:50], f, sorted(map(str, got)) or 'unknown', _fmt_ext(fext[f])))
                elif f in fext:
                    nsite += 1
                    probs.append('%s: whole-array assignment `%s` of the two-dimensional %s is outside the extent rule' % (fn.name, fn.s(x)[:50], f))
    ctx.check(not probs, rule, '%s/extents-preserved' % short, comp.qname,
              'every swap / resize / whole assignment of %s outside init() keeps the extent init() established (%d sites)' % (sorted(fext), nsite)
              if not probs else '; '.join(sorted(set(probs))[:4]))
    return nsite


def _fmt_ext(e):
    if e is None:
        return 'unknown'
    return '[' + ', '.join('%s%s' % (a[0][1] if isinstance(a, tuple) and isinstance(a[0], tuple) else a[0] if isinstance(a, tuple) else a,
                                       ('%+d' % a[1]) if isinstance(a, tuple) and a[1] else '') if a is not None else '?' for a in e) + ']'


def index_ranges(ctx, rule='index-within-extent', bases=('Spectra::HermEigsBase', 'Spectra::GenEigsBase'), floor=150):
    n_ok = 0
    for base in bases:
        inv = class_invariants(ctx, base)
        short = base.replace('Spectra::', '')
        for comp in ctx.F.insts(base + '::compute'):
            m = eigsbase.BaseModel(ctx, comp)
            fext = _extents_of_fields(ctx, base, comp)
            # functions in scope: members of the base and the final-sort overrides of classes derived from this instantiation
            fns = [f for f in m.all_methods if not f.d.get('ctor') and not f.d.get('dtor') and f.cfg]
            for g in ctx.F.concrete():
                if g.name == 'sort_ritzpair' and g.d.get('overrides') and any(ctx.F.by_mangled.get(o) is not None and ctx.F.by_mangled[o].record == comp.record for o in g.d['overrides']):
                    fns.append(g)
            npres = field_extents_preserved(ctx, base, comp, fns, fext, rule)
            if npres < 4:
                raise AnalysisBroken('%s: only %d whole-array replacements of the solver arrays found (4 confirmed by hand)' % (comp.record, npres))
            # postcondition of nev_adjusted, used as the precondition of restart(k)
            k_pre = None
            for fn in fns:
                entry = inv.copy()
                if fn.name == 'nev_adjusted':
                    p = ('v', fn.params[0])
                    entry.add('Z', p, 0)
                    entry.add(p, NEV, 0)
                if fn.name == 'restart':
                    # k is the value nev_adjusted returned (checked on compute() below)
                    p = ('v', fn.params[0])
                    entry.add('Z', p, -1)
                    entry.add(p, NCV, -1)
                rec, OUT = ranges.analyse(fn, entry)
                lext = _local_extents(fn)
                inst_fn = '%s::%s' % (short if fn.cls == base else fn.cls.replace('Spectra::', ''), fn.name)
                if fn.name == 'nev_adjusted':
                    rets = [(pos, z) for pos, z in rec.items() if isinstance(fn.blocks[pos[0]]['elems'][pos[1]], int) and fn.nodes[fn.blocks[pos[0]]['elems'][pos[1]]]['k'] == 'ReturnStmt']
                    okk = bool(rets)
                    for pos, z in rets:
                        lin = zone.linear(fn, fn.nodes[fn.nodes[fn.blocks[pos[0]]['elems'][pos[1]]]['value']])
                        if lin is None or not (ranges.prove_le(z, ('Z', 1), lin) and ranges.prove_le(z, lin, (NCV, -1))):
                            okk = False
                    ctx.check(okk, rule, inst_fn + '/return', fn.qname,
                              'restart size k satisfies 1 <= k <= ncv - 1 for every (n, nev, ncv, nconv) allowed by the constructor' if okk else
                              'cannot prove 1 <= k <= ncv - 1 for the restart size: for some sizes the factorization is restarted with an empty or full basis')
                    n_ok += 1 if okk else 0
                counter = {}
                for (x, b, kind, idxs) in _sites(fn):
                    pos = fn.pos_of(x)
                    if pos is None or pos not in rec:
                        continue
                    z = rec[pos]
                    # base extents
                    bs = fn.strip(b)
                    ext = None
                    elem_hi = None
                    fld = fn.field_name(bs) if bs is not None else None
                    if fld and fld in fext:
                        ext = fext[fld]
                    elif bs is not None and bs['k'] == 'DeclRefExpr' and 'var' in bs and ('v', bs['var']) in lext:
                        ext = lext[('v', bs['var'])][0]
                    if ext is None or any(e is None for e in ext):
                        continue
                    if bs is not None and bs['k'] == 'DeclRefExpr' and (fn.name, bs.get('name')) in COUNTING_EXEMPT:
                        ctx.note('%s: %s -- %s' % (inst_fn, fn.s(x), COUNTING_EXEMPT[(fn.name, bs.get('name'))]))
                        continue
                    # which extent does each index address?
                    if kind == 'elem':
                        pairs = list(zip(idxs, ext)) if len(idxs) == len(ext) else ([(idxs[0], ext[0])] if len(idxs) == 1 and len(ext) == 1 else [])
                        strict = True
                    elif kind in ('col', 'leftCols', 'rightCols'):
                        pairs = [(idxs[0], ext[1])] if len(ext) == 2 else []
                        strict = kind == 'col'
                    elif kind in ('row', 'topRows', 'bottomRows'):
                        pairs = [(idxs[0], ext[0])]
                        strict = kind == 'row'
                    elif kind in ('head', 'tail'):
                        pairs = [(idxs[0], ext[0])] if len(ext) == 1 else []
                        strict = False
                    elif kind in ('coeff', 'coeffRef'):
                        pairs = list(zip(idxs, ext)) if len(idxs) == len(ext) else []
                        strict = True
                    else:
                        pairs = []
                    for idx, e in pairs:
                        lin = zone.linear(fn, idx)
                        what = fn.s(x)[:60]
                        k_ord = counter.get(what, 0)
                        counter[what] = k_ord + 1
                        inst = '%s@%s%s' % (inst_fn, what.replace(' ', ''), '' if k_ord == 0 else '#%d' % (k_ord + 1))
                        if lin is not None:
                            lo_ok = ranges.prove_le(z, ('Z', 0), lin)
                            hi_ok = ranges.prove_le(z, lin, e, slack=-1 if strict else 0)
                            ok = lo_ok and hi_ok
                            ctx.check(ok, rule, inst, fn.qname,
                                      '0 <= %s %s %s' % (fn.s(idx), '<' if strict else '<=', _show_lin(fn, e)) if ok else
                                      'cannot prove %s %s for all sizes: possible access outside the array (%s)' %
                                      ('0 <= ' + fn.s(idx) if not lo_ok else fn.s(idx) + (' < ' if strict else ' <= ') + _show_lin(fn, e), '', fn.loc(x)))
                            n_ok += 1 if ok else 0
                            continue
                        # index is an element of an index vector:  v[i]  with v of known length whose elements are < length
                        ii = fn.strip(idx)
                        if ii is not None and ii['k'] == 'CXXOperatorCallExpr' and ii.get('op') == '[]':
                            vb = fn.strip(fn.call_args(ii)[0])
                            if vb['k'] == 'DeclRefExpr' and 'var' in vb and ('v', vb['var']) in lext and lext[('v', vb['var'])][1] is not None:
                                ln = lext[('v', vb['var'])][1]
                                ok = ranges.prove_le(z, ln, e)
                                ctx.check(ok, rule, inst, fn.qname,
                                          'index vector of length %s used on an extent %s >= that length' % (_show_lin(fn, ln), _show_lin(fn, e)) if ok else
                                          'elements of an index vector of length %s address an array of extent %s, which may be shorter' % (_show_lin(fn, ln), _show_lin(fn, e)))
                                n_ok += 1 if ok else 0
            # compute() hands the result of nev_adjusted to restart unchanged
            calls = [x for x in comp.walk() if x['k'] == 'CXXMemberCallExpr' and x.get('callee') == 'restart']
            for c in calls:
                a = sym(comp, comp.call_args(c)[0])
                okc = isinstance(a, tuple) and a[0] == 'nev_adjusted'
                if not okc:
                    # through a local assigned from nev_adjusted
                    a0 = sym(comp, comp.call_args(c)[0], inline=False)
                    defs = [sym(comp, x, inline=False) for x in comp.walk() if x['k'] == 'BinaryOperator' and x.get('op') == '=' and sym(comp, x['c'][0], inline=False) == a0]
                    okc = bool(defs) and all(d[2][0] == 'nev_adjusted' for d in defs)
                ctx.check(okc, rule, short + '::compute/restart-size', comp.qname,
                          'restart() receives the value returned by nev_adjusted()' if okc else 'restart() receives %s, not the checked restart size' % comp.s(comp.call_args(c)[0]))
    if n_ok < floor:
        raise AnalysisBroken('only %d index obligations proved: fewer than on the tree confirmed by hand' % n_ok)


# ---------------------------------------------------------------------------------------------------
# D1b: the factorization's own index arithmetic
# ---------------------------------------------------------------------------------------------------
FN_, FM_, FK_ = ('f', 'm_n'), ('f', 'm_m'), ('f', 'm_k')


def _prove_idx(fn, z, idx_node, ext_lf, strict, problems, what):
    if not ranges.upper_forms(fn, idx_node):
        problems.append('%s: index %s is outside the linear / min domain' % (what, fn.s(idx_node)))
        return
    if not ranges.nonneg(fn, z, idx_node):
        problems.append('%s: cannot prove 0 <= %s' % (what, fn.s(idx_node)))
    if not ranges.at_most(fn, z, idx_node, ext_lf, slack=-1 if strict else 0):
        problems.append('%s: cannot prove %s %s extent' % (what, fn.s(idx_node), '<' if strict else '<='))


def _check_sites(fn, rec, ext_of):
    """All index / view sites of fn whose base has a known extent: returns (number of sites, problems)."""
    problems = []
    nsite = 0
    for (x, b, kind, idxs) in _sites(fn):
        z = rec.get(fn.pos_of(x))
        e = ext_of(b)
        if z is None or e is None:
            continue
        what = fn.s(x)[:50]
        if kind in ('elem', 'coeff', 'coeffRef') and len(idxs) == len(e):
            for i_, e_ in zip(idxs, e):
                nsite += 1
                _prove_idx(fn, z, i_, e_, True, problems, what)
        elif kind in ('col',) and len(e) == 2:
            nsite += 1
            _prove_idx(fn, z, idxs[0], e[1], True, problems, what)
        elif kind in ('leftCols', 'rightCols') and len(e) == 2:
            nsite += 1
            _prove_idx(fn, z, idxs[0], e[1], False, problems, what)
        elif kind in ('head', 'tail') and len(e) == 1:
            nsite += 1
            _prove_idx(fn, z, idxs[0], e[0], False, problems, what)
        elif kind in ('topRows', 'bottomRows') and len(e) == 2:
            nsite += 1
            _prove_idx(fn, z, idxs[0], e[0], False, problems, what)
        elif kind == 'row' and len(e) == 2:
            nsite += 1
            _prove_idx(fn, z, idxs[0], e[0], True, problems, what)
    for x in fn.walk():
        z = rec.get(fn.pos_of(x)) if x['k'] in ('CXXConstructExpr', 'CXXTemporaryObjectExpr', 'CXXMemberCallExpr') else None
        if z is None:
            continue
        if x['k'] == 'CXXMemberCallExpr' and x.get('callee') == 'block' and x.get('org') == 'E':
            e = ext_of(fn.call_object(x))
            a = fn.call_args(x)
            if e is None or len(a) != 4 or len(e) != 2:
                continue
            nsite += 1
            what = fn.s(x)[:60]
            for y in a:
                if not ranges.nonneg(fn, z, y):
                    problems.append('%s: cannot prove %s >= 0' % (what, fn.s(y)))
            for (o, l_, ee, nm) in ((a[0], a[2], e[0], 'rows'), (a[1], a[3], e[1], 'columns')):
                ok = False
                for U1 in ranges.upper_forms(fn, o):
                    for U2 in ranges.upper_forms(fn, l_):
                        tot = dict(U1)
                        for k_, v_ in U2.items():
                            tot[k_] = tot.get(k_, 0) + v_
                        if ranges.prove_nonpos(z, ranges.lf_sub(tot, ee)):
                            ok = True
                if not ok:
                    problems.append('%s: the block may extend past the last of the %s (%s + %s)' % (what, nm, fn.s(o), fn.s(l_)))
        if x['k'] == 'CXXMemberCallExpr' and x.get('callee') == 'block' and x.get('org') == 'E' and len(fn.call_args(x)) == 2 and len(x.get('targs') or []) >= 2:
            e = ext_of(fn.call_object(x))
            a = fn.call_args(x)
            if e is not None and len(e) == 2:
                nsite += 1
                what = fn.s(x)[:60]
                try:
                    dims = [int(t) for t in x['targs'][:2]]
                except ValueError:
                    dims = None
                if dims is None:
                    problems.append('%s: fixed-size block with unknown dimensions' % what)
                else:
                    for (o, l_, ee, nm) in ((a[0], dims[0], e[0], 'rows'), (a[1], dims[1], e[1], 'columns')):
                        if not ranges.nonneg(fn, z, o):
                            problems.append('%s: cannot prove %s >= 0' % (what, fn.s(o)))
                        ok = False
                        for U1 in ranges.upper_forms(fn, o):
                            tot = dict(U1)
                            tot[1] = tot.get(1, 0) + l_
                            if ranges.prove_nonpos(z, ranges.lf_sub(tot, ee)):
                                ok = True
                        if not ok:
                            problems.append('%s: the block may extend past the last of the %s (%s + %d)' % (what, nm, fn.s(o), l_))
        if x['k'] == 'CXXMemberCallExpr' and x.get('callee') in ('applyOnTheLeft', 'applyOnTheRight') and x.get('org') == 'E' and len(fn.call_args(x)) == 3:
            # rows (left) / columns (right) p and q of the receiver; the receiver may itself be a view of a known array
            ob = fn.strip(fn.call_object(x))
            e = ext_of(ob)
            lim = None
            if e is not None and len(e) == 2:
                lim = e[0] if x['callee'] == 'applyOnTheLeft' else e[1]
            elif ob is not None and ob['k'] == 'CXXMemberCallExpr' and ob.get('callee') in ('rightCols', 'leftCols', 'topRows', 'bottomRows'):
                e2 = ext_of(fn.call_object(ob))
                if e2 is not None and len(e2) == 2:
                    if x['callee'] == 'applyOnTheLeft' and ob['callee'] in ('rightCols', 'leftCols'):
                        lim = e2[0]
                    elif x['callee'] == 'applyOnTheRight' and ob['callee'] in ('topRows', 'bottomRows'):
                        lim = e2[1]
                    elif x['callee'] == 'applyOnTheRight' and ob['callee'] == 'leftCols':
                        lim = ranges.linform(fn, fn.call_args(ob)[0])
                    elif x['callee'] == 'applyOnTheLeft' and ob['callee'] == 'topRows':
                        lim = ranges.linform(fn, fn.call_args(ob)[0])
            if lim is not None:
                for y in fn.call_args(x)[:2]:
                    nsite += 1
                    _prove_idx(fn, z, y, lim, True, problems, fn.s(x)[:50])
        if x['k'] == 'CXXMemberCallExpr' and x.get('callee') in ('segment', 'head', 'tail') and x.get('org') == 'E':
            ob = fn.strip(fn.call_object(x))
            lim = None
            view = False
            if ob is not None and ob['k'] == 'CXXMemberCallExpr' and ob.get('callee') in ('row', 'col'):
                e2 = ext_of(fn.call_object(ob))
                if e2 is not None and len(e2) == 2:
                    lim = e2[1] if ob['callee'] == 'row' else e2[0]
                    view = True
            else:
                e1 = ext_of(ob)
                if e1 is not None and len(e1) == 1 and x['callee'] == 'segment':
                    lim = e1[0]
            a = fn.call_args(x)
            if lim is not None and (x['callee'] == 'segment' or view):
                nsite += 1
                what = fn.s(x)[:70]
                if not hasattr(z, 'facts'):
                    z = ranges.State(z)
                ncase = 0
                for zz, forms in ranges.linform_cases(fn, a, z):
                    ncase += 1
                    if any(f is None for f in forms):
                        problems.append('%s: argument outside the linear / min / max domain' % what)
                        break
                    for f, y in zip(forms, a):
                        if not ranges.prove_nonpos(zz, {k_: -v_ for k_, v_ in f.items()}):
                            problems.append('%s: cannot prove %s >= 0' % (what, fn.s(y)))
                    tot = {}
                    for f in forms:
                        for k_, v_ in f.items():
                            tot[k_] = tot.get(k_, 0) + v_
                    if not ranges.prove_nonpos(zz, ranges.lf_sub(tot, lim)):
                        problems.append('%s: may run past the end of the %s' % (what, 'row' if ob.get('callee') == 'row' else 'column' if view else 'vector'))
        if x['k'] in ('CXXConstructExpr', 'CXXTemporaryObjectExpr') and x.get('ctor_of') == 'Eigen::Map':
            a = [y for y in fn.call_args(x) if y['k'] != 'CXXDefaultArgExpr']
            if len(a) < 2:
                continue
            p0 = fn.strip(a[0])
            if p0['k'] == 'CXXMemberCallExpr' and p0.get('callee') == 'data':
                e = ext_of(fn.call_object(p0))
                if e is None:
                    continue
                nsite += 1
                dims = a[1:]
                if len(dims) == 2 and len(e) == 2:
                    _prove_idx(fn, z, dims[0], e[0], False, problems, fn.s(x)[:40])
                    _prove_idx(fn, z, dims[1], e[1], False, problems, fn.s(x)[:40])
                elif len(dims) == 1:
                    _prove_idx(fn, z, dims[0], e[0], False, problems, fn.s(x)[:40])
            elif p0['k'] == 'UnaryOperator' and p0.get('op') == '&':
                el = fn.strip(fn.nodes[p0['c'][0]])
                if el['k'] == 'CXXOperatorCallExpr' and el.get('op') == '()':
                    ea = fn.call_args(el)
                    e = ext_of(ea[0])
                    if e is None or len(e) != 2 or len(ea) != 3:
                        continue
                    nsite += 1
                    r0 = ranges.linform(fn, ea[1])
                    ln = ranges.linform(fn, a[1])
                    if r0 is None or ln is None:
                        problems.append('%s: non-linear view' % fn.s(x)[:40])
                    else:
                        tot = dict(r0)
                        for k_, v_ in ln.items():
                            tot[k_] = tot.get(k_, 0) + v_
                        if not ranges.prove_nonpos(z, ranges.lf_sub(tot, e[0])):
                            problems.append('%s: column view of length %s may run past the column' % (fn.s(x)[:40], fn.s(a[1])))
    return nsite, problems


def factorization_ranges(ctx, rule='factorization-index-within-extent'):
    """Index arithmetic inside Arnoldi / Lanczos, for all (n, m, k): preconditions are checked at the call sites in the solver
    bases (factorize_from(from_k >= 1, to_m <= m)) or follow from the shift accounting of C07-D3 (compress_V: 1 <= k <= m-1)."""
    # extents from Arnoldi::init
    n_fn = 0
    for ini in ctx.F.insts('Spectra::Arnoldi::init'):
        ext = {}
        for x in ini.walk():
            if x['k'] == 'CXXMemberCallExpr' and x.get('callee') == 'resize':
                f = ini.field_name(ini.call_object(x))
                if f:
                    ext[f] = [ranges.linform(ini, a) for a in ini.call_args(x)]
        want = {'m_fac_V': [{FN_: 1, 1: 0}, {FM_: 1, 1: 0}], 'm_fac_H': [{FM_: 1, 1: 0}, {FM_: 1, 1: 0}], 'm_fac_f': [{FN_: 1, 1: 0}]}
        ok = all(ext.get(k) == v for k, v in want.items())
        ctx.check(ok, rule, 'Arnoldi::init/extents', ini.qname, 'V is n x m, H is m x m, f has length n' if ok else 'factorization arrays are sized %s' % ext)
    EXT = {'m_fac_V': [{FN_: 1, 1: 0}, {FM_: 1, 1: 0}], 'm_fac_H': [{FM_: 1, 1: 0}, {FM_: 1, 1: 0}], 'm_fac_f': [{FN_: 1, 1: 0}]}
    # call-site preconditions
    for base in ('Spectra::HermEigsBase', 'Spectra::GenEigsBase'):
        inv = class_invariants(ctx, base)
        for fname in ('compute', 'restart'):
            for fn in ctx.F.insts(base + '::' + fname):
                entry = inv.copy()
                if fname == 'restart':
                    p = ('v', fn.params[0])
                    entry.add('Z', p, -1)
                    entry.add(p, NCV, -1)
                rec, _ = ranges.analyse(fn, entry)
                for c in fn.walk():
                    if c['k'] == 'CXXMemberCallExpr' and c.get('callee') == 'factorize_from':
                        a = fn.call_args(c)
                        z = rec.get(fn.pos_of(c))
                        problems = []
                        if z is None:
                            problems.append('call site unreachable in the analysis')
                        else:
                            # from_k >= 1: some lower form L of the argument (max(a, b) >= a and >= b) satisfies 1 - L <= 0
                            lows = ranges.lower_forms(fn, a[0])
                            if not any(ranges.prove_nonpos(z, {**{k: -v for k, v in L0.items() if k != 1}, 1: 1 - L0.get(1, 0)}) for L0 in lows):
                                problems.append('cannot prove from_k >= 1 for %s' % fn.s(a[0]))
                            if sym(fn, a[1], inline=False) != ('F', 'm_ncv'):
                                problems.append('to_m is %s, not the subspace dimension the factorization was built with' % fn.s(a[1]))
                        ctx.check(not problems, rule, '%s::%s/factorize_from-precondition' % (base.replace('Spectra::', ''), fname), fn.qname,
                                  'factorize_from(from_k >= 1, to_m = ncv)' if not problems else '; '.join(problems))
                if fname == 'restart':
                    qs = [sym(fn, d['init'], inline=False) for x in fn.walk() if x['k'] == 'DeclStmt' for d in x['decls'] if 'init' in d and fn.locals[d['var']]['name'] == 'Q']
                    okq = len(qs) == 1 and qs[0][0] == 'call' and qs[0][1] == 'Identity' and qs[0][2:] == (('F', 'm_ncv'), ('F', 'm_ncv'))
                    ctx.check(okq, rule, base.replace('Spectra::', '') + '::restart/Q', fn.qname, 'Q is ncv x ncv' if okq else 'Q is %s' % [show(q) for q in qs])
        # the factorization is built with m = ncv
        for c in [f for f in ctx.F.concrete() if f.cls == base and f.d.get('ctor')]:
            ini = {i['member']: sym(c, i['expr'], inline=False) for i in c.inits}
            t = ini.get('m_fac')
            okm = t is not None and t[-1] == ('F', 'm_ncv')
            ctx.check(okm, rule, base.replace('Spectra::', '') + '::ctor/m', c.qname, 'factorization dimension m = ncv' if okm else 'factorization built with %s' % (show(t) if t else None))
    # members
    for fn in ctx.F.concrete():
        if fn.cls not in ('Spectra::Arnoldi', 'Spectra::Lanczos') or fn.name not in ('factorize_from', 'compress_V', 'init') or not fn.cfg:
            continue
        n_fn += 1
        entry = DBM()
        entry.add('Z', FM_, -2)          # m = ncv >= 2
        entry.add(FM_, FN_, 0)           # m <= n
        entry.add('Z', FK_, 0)
        entry.add(FK_, FM_, 0)
        lext = {}
        if fn.name == 'factorize_from':
            pf, pt = ('v', fn.params[0]), ('v', fn.params[1])
            entry.add('Z', pf, -1)       # from_k >= 1   (checked at the call sites above)
            entry.add(pt, FM_, 0)        # to_m <= m
        if fn.name == 'compress_V':
            entry.add('Z', FK_, -1)      # 1 <= k <= m - 1: k = restart size (C13 nev_adjusted range) by the shift accounting of C07-D3
            entry.add(FK_, FM_, -1)
            lext[('v', fn.params[0])] = [{FM_: 1, 1: 0}, {FM_: 1, 1: 0}]
        rec, _ = ranges.analyse(fn, entry)
        # local arrays
        for x in fn.walk():
            if x['k'] == 'DeclStmt':
                for d in x['decls']:
                    if 'var' in d and 'init' in d and fn.locals[d['var']]['type'].startswith('Eigen::Matrix<'):
                        core = fn.strip(fn.nodes[d['init']], explicit_casts=False)
                        if core['k'] in ('CXXConstructExpr', 'CXXTemporaryObjectExpr') and not core.get('copy') and not core.get('move'):
                            args = [ranges.linform(fn, a) for a in fn.call_args(core) if a['k'] != 'CXXDefaultArgExpr']
                            if args and all(a is not None for a in args):
                                lext[('v', d['var'])] = args
        def ext_of(b):
            bs = fn.strip(b)
            if bs is None:
                return None
            f = fn.field_name(bs)
            if f in EXT:
                return EXT[f]
            if bs['k'] == 'DeclRefExpr' and 'var' in bs:
                return lext.get(('v', bs['var']))
            return None
        nsite, problems = _check_sites(fn, rec, ext_of)
        inst = '%s::%s' % (fn.cls.replace('Spectra::', ''), fn.name)
        if nsite == 0 and fn.name != 'init':
            raise AnalysisBroken('%s: no index site found' % fn.qname)
        ctx.check(not problems, rule, inst, fn.qname,
                  '%d index / view sites within V (n x m), H (m x m), f (n), Q (m x m) and the local work arrays, for all n, m, k' % nsite
                  if not problems else '; '.join(sorted(set(problems))[:4]))
    if n_fn < 15:
        raise AnalysisBroken('only %d factorization members analysed' % n_fn)
    # factorize_from leaves the advertised dimension equal to to_m on every path that did not return early
    for fn in ctx.F.concrete():
        if fn.cls in ('Spectra::Arnoldi', 'Spectra::Lanczos') and fn.name == 'factorize_from':
            asg = [x for x in fn.walk() if x['k'] == 'BinaryOperator' and x.get('op') == '=' and sym(fn, x, inline=False) == ('=', ('F', 'm_k'), ('P', fn.locals[fn.params[1]]['name']))]
            loops = [x for x in fn.walk() if x['k'] == 'ForStmt']
            ok = len(asg) == 1 and bool(loops)
            if ok:
                # from the loop head, every normal exit passes the assignment
                aid = asg[0]['id']
                lp = fn.pos_of(fn.strip(fn.nodes[loops[0]['cond']]))
                hit = paths.search(fn, paths.positions_of(fn, lambda n, l=loops[0]: fn.within(n, l['cond'])), stop=lambda n: n['id'] == aid,
                                   target=lambda n: n['k'] == 'ReturnStmt', exit_is_target=lambda b: True, normal_only=True)
                ok = hit is None
            ctx.check(ok, rule, '%s::factorize_from/dimension' % fn.cls.replace('Spectra::', ''), fn.qname,
                      'advertised dimension = to_m after the loop on every normal path' if ok else 'a normal path leaves the loop without updating the advertised dimension')


def double_shift_blocks(ctx, rule='double-shift-block-within-matrix'):
    """DoubleShiftQR::update_block(il, iu): every element access and every sub-block of the n x n work matrix stays inside it for
    all 0 <= il <= iu <= n - 1 (block boundaries come from the increasing list of deflation points 0 = z0 < z1 < ... = n)."""
    fns = ctx.F.insts('Spectra::DoubleShiftQR::update_block')
    for fn in fns:
        MN = ('f', 'm_n')
        EXT = {'m_mat_H': [{MN: 1, 1: 0}, {MN: 1, 1: 0}], 'm_ref_nr': [{MN: 1, 1: 0}], 'm_ref_u': [{1: 3}, {MN: 1, 1: 0}]}
        entry = DBM()
        il, iu = ('v', fn.params[0]), ('v', fn.params[1])
        entry.add('Z', il, 0)
        entry.add(il, iu, 0)
        entry.add(iu, MN, -1)
        rec, _ = ranges.analyse(fn, entry)

        def ext_of(b):
            bs = fn.strip(b)
            f = fn.field_name(bs) if bs is not None else None
            return EXT.get(f)
        nsite, problems = _check_sites(fn, rec, ext_of)
        if nsite < 15:
            raise AnalysisBroken('%s: only %d index sites found' % (fn.qname, nsite))
        ctx.check(not problems, rule, 'DoubleShiftQR::update_block', fn.qname,
                  '%d element / sub-block sites inside the n x n matrix for every block [il, iu]' % nsite if not problems else '; '.join(sorted(set(problems))[:4]))
    # the caller hands over consecutive deflation points: start = z[i], end = z[i+1] - 1, z starts with 0, ends with n, and
    # grows by pushing i + 1 for increasing i
    for fn in ctx.F.insts('Spectra::DoubleShiftQR::compute'):
        calls = [x for x in fn.walk() if x['k'] == 'CXXMemberCallExpr' and x.get('callee') == 'update_block']
        ok = len(calls) == 1
        if ok:
            a = [sym(fn, y) for y in fn.call_args(calls[0])]
            ok = a[0][0] == '[]' and a[1][0] == '-' and a[1][1][0] == '[]' and a[1][2] == ('lit', '1') and a[1][1][2] == ('+', a[0][2], ('lit', '1'))
            pushes = [sym(fn, fn.call_args(x)[0], inline=False) for x in fn.walk() if x['k'] == 'CXXMemberCallExpr' and x.get('callee') == 'push_back']
            ok = ok and pushes[0] == ('lit', '0') and pushes[-1] == ('F', 'm_n') and all(p[0] == '+' and p[2] == ('lit', '1') for p in pushes[1:-1])
        ctx.check(ok, rule, 'DoubleShiftQR::compute/blocks', fn.qname,
                  'blocks are [z_i, z_{i+1} - 1] for the increasing deflation points 0 = z_0 < ... < z_len = n' if ok else 'block boundaries are not consecutive deflation points')



# D10: dense kernels (real Schur, Hessenberg eigenvectors, symmetric tridiagonal QL/QR), assume / guarantee with the zone engine
def dense_kernel_contracts(ctx, rule='dense-kernel-index-contracts'):
    from . import contracts
    SCHUR = contracts.Spec('Spectra::UpperHessenbergSchur', ['0 <= m_n'], {'m_T': ['m_n', 'm_n'], 'm_U': ['m_n', 'm_n']}, {
        'compute': {},
        'find_small_subdiag': {'pre': ['0 <= iu', 'iu <= m_n - 1'], 'post': ['0 <= ret', 'ret <= iu']},
        'split_off_two_rows': {'pre': ['1 <= iu', 'iu <= m_n - 1']},
        'compute_shift': {'pre': ['2 <= iu', 'iu <= m_n - 1']},
        'init_francis_qr_step': {'pre': ['0 <= il', 'il <= iu - 2', 'iu <= m_n - 1'], 'post': ['il <= im', 'im <= iu - 2']},
        'perform_francis_qr_step': {'pre': ['0 <= il', 'il <= im', 'im <= iu - 2', 'iu <= m_n - 1']},
    }, windows={
        'apply_householder_left': dict(params=['ess', 'tau', 'x', 'ncol', 'stride'], ptr='x', rows=3, cols='ncol', stride='stride'),
        'apply_householder_right': dict(params=['ess', 'tau', 'x', 'nrow', 'stride'], ptr='x', rows='nrow', cols=3, stride='stride'),
        'apply_householder_right_simd': dict(params=['ess', 'tau', 'x', 'nrow', 'stride'], ptr='x', rows='nrow', cols=3, stride='stride'),
    })
    EIG = contracts.Spec('Spectra::UpperHessenbergEigen', ['0 <= m_n'], {'m_matT': ['m_n', 'm_n'], 'm_eivec': ['m_n', 'm_n'], 'm_eivalues': ['m_n']}, {
        'compute': {}, 'doComputeEigenvectors': {}, 'eigenvectors': {}})
    TRI = contracts.Spec('Spectra::TridiagEigen', ['0 <= m_n'], {'m_main_diag': ['m_n'], 'm_sub_diag': ['m_n - 1'], 'm_evecs': ['m_n', 'm_n']}, {
        'compute': {},
        'tridiagonal_qr_step': {'pre': ['0 <= start', 'start <= end - 1', 'end <= n - 1'],
                                'ptr': {'diag': ['n'], 'subdiag': ['n - 1'], 'matrixQ': ['n', 'n']}}})
    for spec, floor in ((SCHUR, 90), (EIG, 140), (TRI, 30)):
        contracts.verify(ctx, spec, _check_sites, rule, min_sites=floor)
        _extents_established(ctx, spec, rule)


def _extents_established(ctx, spec, rule):
    """The extents the contracts assume are the ones the class gives its arrays: every resize of a declared array uses exactly
    the declared dimensions, and every declared array is resized (or swapped with a declared array of another checked class)."""
    SWAPPED = {('Spectra::UpperHessenbergEigen', 'm_matT'): 'swap_T', ('Spectra::UpperHessenbergEigen', 'm_eivec'): 'swap_U'}
    seen = {}
    probs = []
    for fn in ctx.F.concrete():
        if fn.cls != spec.cls or not fn.cfg:
            continue
        for x in fn.walk():
            if x['k'] == 'CXXMemberCallExpr' and x.get('callee') == 'resize':
                f = fn.field_name(fn.strip(fn.call_object(x))) if fn.call_object(x) is not None else None
                if f in spec.extents:
                    got = [ranges.linform(fn, a) for a in fn.call_args(x)]
                    from .contracts import _resolve, _lin
                    want = [_resolve(fn, _lin(t)) for t in spec.extents[f]]
                    ok = len(got) == len(want) and all(g is not None and w is not None and ranges.lf_sub(g, w) == {1: 0} for g, w in zip(got, want))
                    seen[f] = seen.get(f, True) and ok
                    if not ok:
                        probs.append('%s: `%s` does not give %s the extent %s the index proofs assume' % (fn.name, fn.s(x)[:50], f, spec.extents[f]))
            if x['k'] == 'CXXMemberCallExpr' and x.get('callee') in ('swap_T', 'swap_U'):
                a = fn.call_args(x)
                f = fn.field_name(fn.strip(a[0])) if a else None
                if SWAPPED.get((spec.cls, f)) == x['callee']:
                    # the Schur factor it is swapped with is n x n by the Schur class's own resize (checked for that class); both
                    # classes take n from the same argument in the same call
                    seen[f] = seen.get(f, True)
    for f in spec.extents:
        if f not in seen:
            probs.append('%s is never sized: the declared extent %s is not established' % (f, spec.extents[f]))
    ctx.check(not probs, rule, '%s/extents' % spec.cls.replace('Spectra::', ''), spec.cls,
              'declared extents %s are exactly what the class resizes its arrays to' % {k: v for k, v in spec.extents.items()} if not probs else '; '.join(probs))



# D11: Bunch-Kaufman factorization on packed lower-triangular storage (contracts + packed pointer model)
def packed_storage_contracts(ctx, rule='packed-storage-index-contracts'):
    from . import contracts
    BK = contracts.Spec('Spectra::BKLDLT', ['0 <= m_n'], {'m_perm': ['m_n']}, {
        'pivoting_1x1': {'pre': ['0 <= k', 'k <= r', 'r <= m_n - 1']},
        'pivoting_2x2': {'pre': ['0 <= k', 'k <= p', 'p <= m_n - 1', 'k + 1 <= r', 'r <= m_n - 1']},
        'interchange_rows': {'pre': ['0 <= c1', 'c2 <= r1', 'r1 <= r2', 'r2 <= m_n - 1']},
        'find_lambda': {'pre': ['0 <= k', 'k <= m_n - 2'], 'post': ['k + 1 <= r', 'r <= m_n - 1']},
        'find_sigma': {'pre': ['0 <= k', 'k + 1 <= r', 'r <= m_n - 1', 'k <= p', 'p <= m_n - 1'], 'post': ['k <= p', 'p <= m_n - 1']},
        'permutate_mat': {'pre': ['0 <= k', 'k <= m_n - 2']},
        'gaussian_elimination_1x1': {'pre': ['0 <= k', 'k <= m_n - 1']},
        'gaussian_elimination_2x2': {'pre': ['0 <= k', 'k <= m_n - 2']},
        'compress_permutation': {},
        'compute': {},
    })
    PK = contracts.Packed('Spectra::BKLDLT', 'm_n', ptr_cols={
        'find_lambda': {'head': 'k', 'end': 'k', 'ptr': 'k'},
        'pivoting_1x1': {'src': 'k'},
        'gaussian_elimination_1x1': {'lptr': 'k'},
        'gaussian_elimination_2x2': {'l1ptr': 'k', 'l2ptr': 'k + 1'},
    })
    n = contracts.verify_packed(ctx, BK, PK, _check_sites, rule)
    if n < 100:
        raise AnalysisBroken('BKLDLT: only %d packed-storage sites analysed (106 confirmed)' % n)
    # the layout the pointer model assumes is the one the class builds, and the accessors are what the model says they are
    seen = set()
    for fn in ctx.F.concrete():
        if fn.cls != 'Spectra::BKLDLT' or not fn.cfg or fn.record in seen:
            continue
        ms = {}
        for g in ctx.F.methods(fn.record):
            ms.setdefault(g.name, []).append(g)
        seen.add(fn.record)
        probs = []

        def ret(name, nparams, const=False):
            for g in ms.get(name, []):
                if len(g.params) == nparams and g.cfg:
                    r = [x for x in g.walk() if x['k'] == 'ReturnStmt']
                    if len(r) == 1:
                        return sym(g, r[0]['value'], inline=False), [g.locals[v]['name'] for v in g.params]
            return None, None
        t, pn = ret('coeff', 2)
        if t is None or t != ('[]', ('[]', ('F', 'm_colptr'), ('P', pn[1])), ('-', ('P', pn[0]), ('P', pn[1]))):
            probs.append('coeff(i, j) is not m_colptr[j][i - j]: %s' % (show(t) if t else None))
        t, pn = ret('diag_coeff', 1)
        if t is None or t != ('[]', ('[]', ('F', 'm_colptr'), ('P', pn[0])), ('lit', '0')):
            probs.append('diag_coeff(i) is not m_colptr[i][0]: %s' % (show(t) if t else None))
        t, pn = ret('col_pointer', 1)
        if t is None or t != ('[]', ('F', 'm_colptr'), ('P', pn[0])):
            probs.append('col_pointer(k) is not m_colptr[k]: %s' % (show(t) if t else None))
        cp = [g for g in ms.get('compute_pointer', []) if g.cfg]
        if not cp:
            probs.append('compute_pointer not analysed')
        else:
            g = cp[0]
            loops = [x for x in g.walk() if x['k'] == 'ForStmt']
            ok = len(loops) == 1
            if ok:
                lp = loops[0]
                init = g.node(lp['init'])
                iv = g.locals[init['decls'][0]['var']]['name']
                I = ('L', iv)
                body = [sym(g, x, inline=False) for x in g.kids(g.nodes[lp['body']])]
                ok = (sym(g, init['decls'][0]['init'], inline=False) == ('lit', '0') and sym(g, lp['cond'], inline=False) == ('<', I, ('F', 'm_n')) and
                      sym(g, lp['inc'], inline=False) == ('u++', I) and len(body) == 2 and
                      body[0][0] == 'push_back' and body[0][1] == ('F', 'm_colptr') and body[0][2][0] == 'L' and
                      body[1] == ('+=', body[0][2], ('-', ('F', 'm_n'), I)))
                heads = [sym(g, d['init'], inline=False) for x in g.walk() if x['k'] == 'DeclStmt' for d in x['decls'] if 'init' in d and g.locals[d['var']]['name'] == (body[0][2][1] if ok else '')]
                ok = ok and heads == [('data', ('F', 'm_data'))]
                clears = [x for x in g.walk() if x['k'] == 'CXXMemberCallExpr' and x.get('callee') == 'clear' and g.field_name(g.strip(g.call_object(x))) == 'm_colptr']
                ok = ok and len(clears) == 1
            if not ok:
                probs.append('compute_pointer does not lay the columns out contiguously (column i: n - i entries, starting at the data pointer)')
        comp = [g for g in ms.get('compute', []) if g.cfg]
        rs = []
        for g in comp:
            for x in g.walk():
                if x['k'] == 'CXXMemberCallExpr' and x.get('callee') == 'resize' and g.field_name(g.strip(g.call_object(x))) == 'm_data':
                    rs.append(sym(g, g.call_args(x)[0], inline=False))
        want = ('/', ('*', ('+', ('F', 'm_n'), ('lit', '1')), ('F', 'm_n')), ('lit', '2'))
        if not rs or any(r_ != want and r_ != ('/', ('*', ('F', 'm_n'), ('+', ('F', 'm_n'), ('lit', '1'))), ('lit', '2')) for r_ in rs):
            probs.append('the packed storage is not sized n(n+1)/2: %s' % [show(r_) for r_ in rs])
        # compute_pointer() precedes every use of the column pointers in compute()
        for g in comp:
            cps = paths.positions_of(g, lambda n_: n_['k'] == 'CXXMemberCallExpr' and n_.get('callee') == 'compute_pointer')
            uses = paths.positions_of(g, lambda n_: n_['k'] == 'CXXMemberCallExpr' and n_.get('callee') in ('copy_data', 'permutate_mat', 'diag_coeff'))
            if not cps or not all(paths.dominated_by(g, u, lambda n_: n_['k'] == 'CXXMemberCallExpr' and n_.get('callee') == 'compute_pointer') for u in uses):
                probs.append('compute(): a use of the column pointers is not preceded by compute_pointer()')
        ctx.check(not probs, rule, 'BKLDLT/layout', fn.record,
                  'coeff(i,j) = colptr[j][i-j], diag_coeff(i) = colptr[i][0], col_pointer(k) = colptr[k]; columns contiguous with n - i entries in n(n+1)/2 storage; pointers rebuilt before use'
                  if not probs else '; '.join(probs))



# D12: pointer-walking kernels of the QR helpers (dense column-major pointer model, rules/densemodel.py)
def pointer_kernel_contracts(ctx, rule='pointer-kernel-contracts'):
    from . import contracts
    from .densemodel import Dense
    HQ = contracts.Spec('Spectra::UpperHessenbergQR', [], {'m_mat_R': ['m_n', 'm_n'], 'm_rot_cos': ['m_n - 1'], 'm_rot_sin': ['m_n - 1']},
                        {'compute': {}, 'matrix_QtHQ': {}, 'apply_YQ': {}})
    HQ.symbolic_params = ('Y',)
    D1 = Dense({'m_mat_R': dict(rows='m_n', cols='m_n'), 'dest': dict(rows='m_n', cols='m_n'), 'Y': dict(rows='rows_Y', cols='m_n', stride='rows_Y')},
               {'compute': {'Rii': 'm_mat_R', 'ptr': 'm_mat_R'}, 'matrix_QtHQ': {'Yi': 'dest', 'Yi1': 'dest'}, 'apply_YQ': {'Y_col_i': 'Y', 'Y_col_i1': 'Y'}})
    TQ = contracts.Spec('Spectra::TridiagQR', [], {'m_rot_cos': ['m_n - 1'], 'm_rot_sin': ['m_n - 1'], 'm_T_diag': ['m_n'], 'm_T_subd': ['m_n - 1'],
                                                    'm_R_diag': ['m_n'], 'm_R_supd': ['m_n - 1'], 'm_R_supd2': ['m_n - 2']},
                        {'compute': {}, 'matrix_QtHQ': {}})
    D2 = Dense({'m_rot_cos': dict(rows='m_n - 1'), 'm_rot_sin': dict(rows='m_n - 1')}, {'compute': {'c': 'm_rot_cos', 's': 'm_rot_sin'}})
    DS = contracts.Spec('Spectra::DoubleShiftQR', ['2 <= m_n'], {'m_mat_H': ['m_n', 'm_n'], 'm_ref_u': [3, 'm_n'], 'm_ref_nr': ['m_n']}, {
        'compute': {},
        'update_block': {'pre': ['0 <= il', 'il <= iu', 'iu <= m_n - 1'],
                         'callsite_assumed': {'compute': 'blocks are [z_i, z_{i+1} - 1] of the increasing deflation points 0 = z_0 < ... = n (rule double-shift-block-within-matrix)'}},
        # the reflector of column `ind` touches rows ind .. ind + nr - 1: nr = 3 needs ind <= n - 3.  The size written is 3 only
        # when the third entry is not negligible; a call that passes the literal 0 there can only write 1 or 2 (|0| < m_near_0, the
        # threshold is a positive constant): two variants of the member, chosen at each call site by that argument
        'compute_reflector/4': {'pre': ['0 <= ind', 'ind <= m_n - 1'], 'variants': [
            {'name': 'third-entry-is-literal-zero', 'pre': ['ind <= m_n - 2'], 'assume_true': ['(x3m < m_near_0)'],
             'when': lambda f, a: (f.strip(a[2]) or {}).get('k') in ('IntegerLiteral',) and (f.strip(a[2]) or {}).get('val') == '0'},
            {'name': 'three-entries', 'pre': ['ind <= m_n - 3'], 'when': lambda f, a: True}]},
        'compute_reflector/2': {'pre': ['0 <= ind', 'ind <= m_n - 3']},
        'apply_PX/3': {'pre': ['2 <= rows_X', '0 <= u_ind', 'u_ind <= m_n - 1']},
        'apply_PX/2': {'pre': ['0 <= u_ind', 'u_ind <= m_n - 1'], 'ptr_origin': {'x': 'u_ind'}},
        'apply_XP': {'pre': ['2 <= cols_X', '0 <= u_ind', 'u_ind <= m_n - 1']},
        'apply_YQ': {},
        'apply_QtY': {},
    }, windows={'compute_reflector/2': dict(params=['x', 'ind'], ptr='x', rows=3, cols=1)})
    DS.symbolic_params = ('X',)
    # content invariant of the reflector-size array: entry k is 1, 2 or 3 and the reflector fits below row k
    DS.array_inv = {'m_ref_nr': ['1 <= val', 'val <= 3', 'val + idx <= m_n']}
    D3 = Dense({'m_mat_H': dict(rows='m_n', cols='m_n'), 'm_ref_u': dict(rows=3, cols='m_n'), 'm_ref_nr': dict(rows='m_n'),
                'X': dict(rows='rows_X', cols='cols_X', stride='stride'), 'XW': dict(rows=3), 'YV': dict(rows='m_n'), 'y': dict(rows='m_n')},
               {'compute': {'Hii': 'm_mat_H'}, 'compute_reflector': {'u': 'm_ref_u', 'nr': 'm_ref_nr', 'x': 'XW'}, 'apply_PX': {'xptr': 'X', 'x': 'YV'},
                'apply_QtY': {'y_ptr': 'y'},
                'apply_XP': {'X0': 'X', 'X1': 'X', 'X2': 'X'}})
    HH = contracts.Spec('Spectra::UpperHessenbergSchur', [], {}, {
        'apply_householder_left': {'pre': ['0 <= ncol']},
        'apply_householder_right': {'pre': ['0 <= nrow']},
        'apply_householder_right_simd': {'pre': ['0 <= nrow']}})
    simd = {k_: 'WR' for k_ in ('x', 'x0', 'x1', 'x2', 'px0', 'px1', 'px2')}
    D4 = Dense({'WL': dict(rows=3, cols='ncol', stride='stride'), 'WR': dict(rows='nrow', cols=3, stride='stride')},
               {'apply_householder_left': {'x': 'WL', 'x_end': 'WL'}, 'apply_householder_right': {'x': 'WR', 'x0': 'WR', 'x1': 'WR', 'x2': 'WR'},
                'apply_householder_right_simd': simd})
    D3.param_origin = {'apply_PX': {'x': ('0', 'u_ind')}}      # the vector overload receives a pointer to entry u_ind of a length-n vector
    # the variant `third-entry-is-literal-zero` assumes (x3m < m_near_0) for x3 == 0: x3m must be |x3| of the third parameter
    for f_ in ctx.F.concrete():
        if f_.cls == 'Spectra::DoubleShiftQR' and f_.name == 'compute_reflector' and len(f_.params) == 4 and f_.cfg:
            p3 = f_.locals[f_.params[2]]['name']
            defs = [sym(f_, d_['init'], inline=False) for x_ in f_.walk() if x_['k'] == 'DeclStmt' for d_ in x_['decls'] if 'init' in d_ and f_.locals[d_['var']]['name'] == 'x3m']
            okm = defs == [('call', 'abs', ('P', p3))]
            ctx.check(okm, rule, 'DoubleShiftQR::compute_reflector/negligibility-test', f_.qname,
                      'the size-3 test compares |x3| of the third parameter with the positive threshold' if okm else 'x3m is %s, not abs of the third parameter' % [show(t_) for t_ in defs])
    tot = contracts.verify_dense(ctx, HH, D4, _check_sites, rule, min_sites=30)
    for spec, dm, floor in ((HQ, D1, 25), (TQ, D2, 20), (DS, D3, 60)):
        tot += contracts.verify_dense(ctx, spec, dm, _check_sites, rule, min_sites=floor)
        _extents_established(ctx, spec, rule)
    return tot



STRIDE_NAMES = ('stride', 'ld', 'lda', 'outer_stride')


def stride_arguments(ctx, rule='pointer-kernel-contracts'):
    """The pointer kernels walk a block by an explicit column stride.  Their index proofs are relative to that parameter; they say
    something about the caller's memory only if the argument IS the storage stride of the matrix the block (or pointer) is taken
    from: `M.outerStride()` of that very matrix, or the row count of a plain Eigen::Matrix member (contiguous by type) whose
    declared extent has that many rows.  `rows()` of a Ref parameter is not: a Ref<Matrix> binds to a strided view without a
    copy, and the kernel then reads and writes rows of the parent that are outside the view."""
    n = 0
    seen = set()
    for fn in ctx.F.concrete():
        if not fn.cfg or not (fn.cls or '').startswith('Spectra::'):
            continue
        rec = [r for r in ctx.F.records.values() if r['qname'] == fn.record and not r['dep']]
        ftypes = {f['name']: f['type'] for f in rec[0]['fields']} if rec else {}
        for c in fn.walk():
            if c['k'] not in ('CXXMemberCallExpr', 'CallExpr'):
                continue
            t = ctx.F.resolve(c)
            if t is None:
                continue
            pn = [t.locals[v]['name'] for v in t.params]
            args = fn.call_args(c)
            for k, nm in enumerate(pn):
                if nm not in STRIDE_NAMES or k >= len(args):
                    continue
                st = sym(fn, args[k])
                # the matrix the data comes from: a block / data() of a field or parameter among the other arguments, or -- when the
                # pointer argument is a local -- the field the kernel's class walks (tabulated by the dense model: a plain member)
                srcs = set()
                for a in args[:k] + args[k + 1:]:
                    for y in fn.walk(a['id']):
                        if y['k'] == 'MemberExpr' and y.get('mk') == 'field' and ftypes.get(y.get('member'), '').startswith('Eigen::Matrix<'):
                            srcs.add(('F', y['member']))
                        if y['k'] == 'DeclRefExpr' and y.get('var') in fn.params and 'Eigen::' in fn.locals[y['var']]['type']:
                            srcs.add(('P', fn.locals[y['var']]['name']))
                key = (fn.cls, fn.name, t.name, show(st), tuple(sorted(srcs)))
                if key in seen:
                    continue
                seen.add(key)
                n += 1
                inst = '%s::%s->%s/stride' % (fn.cls.replace('Spectra::', ''), fn.name, t.name)
                ok, why = False, ''
                if isinstance(st, tuple) and st[0] == 'outerStride' and (not srcs or st[1] in srcs):
                    ok, why = True, 'outerStride() of %s' % show(st[1])
                elif st[0] == 'F' and ftypes.get(st[1], '') in zone.INT_TYPES | {'Eigen::Index', 'const Eigen::Index'}:
                    # an integer member: right iff the source is a plain Matrix member whose extent has exactly that many rows
                    plain = [s_ for s_ in srcs if s_[0] == 'F']
                    params = [s_ for s_ in srcs if s_[0] == 'P']
                    if params:
                        ok, why = False, 'the member %s is handed over as the stride of the parameter %s' % (st[1], params[0][1])
                    else:
                        ok, why = True, 'row count %s of the plain (contiguous) Matrix member%s the class walks; its extent is established by the extent rules' % (
                            st[1], ' ' + plain[0][1] if plain else '')
                else:
                    ok = False
                    why = '`%s` is not the storage stride' % show(st)
                    if isinstance(st, tuple) and st[0] == 'rows':
                        why = ('`%s` is handed over as the column stride of %s, which is an Eigen::Ref: a Ref binds to a strided view (`big.topRows(k)`) without copying, its columns are '
                               '%s.outerStride() apart, and the kernel then reads and writes rows of the parent matrix outside the view' % (show(st), show(st[1]), show(st[1])))
                ctx.check(ok, rule, inst, fn.qname, 'stride argument is ' + why if ok else why)
    if n < 4:
        raise AnalysisBroken('only %d stride arguments found (5 confirmed by hand)' % n)


# D13: aligned packet accesses need alignment evidence for the address they touch
def aligned_access_evidence(ctx, rule='aligned-packet-access-has-alignment-evidence'):
    """An aligned packet load / store on a misaligned address is undefined behaviour (a fault on x86-64).  Every aligned access
    (pload / pstore, or ploadt / pstoret with a non-zero alignment mode) through a pointer derived from a pointer parameter x
    by whole columns (x + c * stride) needs, on every way into it, a test of the alignment of that very column: a test of
    x + c * stride itself, or a test of x together with a test that the stride keeps the alignment.  Testing the first column
    only says nothing about the others (an odd stride misaligns them)."""
    def aligned_sites(fn):
        out = []
        for x in fn.walk():
            if x['k'] == 'CallExpr' and x.get('callee') in ('pload', 'pstore'):
                out.append(x)
            elif x['k'] == 'CallExpr' and x.get('callee') in ('ploadt', 'pstoret', 'ploadt_ro'):
                ta = x.get('targs') or []
                if ta and ta[-1] not in ('0',):
                    out.append(x)
        return out

    def columns(fn):
        """pointer local / param id -> (param id it derives from, whole-column offset) by the definitions in fn, or None"""
        col = {}
        for v in fn.params:
            if zone.zone_is_ptr(fn.locals[v]['type']):
                col[v] = (v, 0)
        strides = set(v for v in fn.params if fn.locals[v]['name'] in ('stride', 'ld', 'lda', 'outer_stride'))
        changed = True
        defs = []
        for x in fn.walk():
            if x['k'] == 'DeclStmt':
                for d in x['decls']:
                    if 'var' in d and 'init' in d and zone.zone_is_ptr(fn.locals[d['var']]['type']):
                        defs.append((d['var'], fn.nodes[d['init']]))
            if x['k'] == 'BinaryOperator' and x.get('op') == '=':
                l = fn.strip(fn.nodes[x['c'][0]])
                if l is not None and l['k'] == 'DeclRefExpr' and 'var' in l and zone.zone_is_ptr(fn.locals[l['var']]['type']):
                    defs.append((l['var'], fn.nodes[x['c'][1]]))

        def ev(n):
            n = fn.strip(n)
            if n is None:
                return None
            if n['k'] == 'DeclRefExpr' and 'var' in n:
                return col.get(n['var'])
            if n['k'] == 'BinaryOperator' and n.get('op') == '+':
                a, b = fn.strip(fn.nodes[n['c'][0]]), fn.strip(fn.nodes[n['c'][1]])
                for p_, o_ in ((a, b), (b, a)):
                    pv = ev(p_)
                    if pv is not None:
                        if o_ is not None and o_['k'] == 'DeclRefExpr' and o_.get('var') in strides:
                            return (pv[0], pv[1] + 1)
                        return pv          # a row offset: same column
            return None
        while changed:
            changed = False
            for v, init in defs:
                r = ev(init)
                if r is not None and col.get(v) != r:
                    if v in col and col[v] != r:
                        col[v] = None
                    else:
                        col[v] = r
                        changed = True
        return col, strides

    def evidence(fn, node):
        """alignment tests that hold at `node`: set of ('ptr', param id, column) / ('stride',)"""
        col, strides = columns(fn)
        out = set()
        for anc in fn.ancestors(node):
            if anc['k'] != 'IfStmt' or not fn.within(node, anc['then']):
                continue
            conj = []

            def flat(n):
                n = fn.strip(n)
                if n['k'] == 'BinaryOperator' and n.get('op') == '&&':
                    flat(fn.nodes[n['c'][0]])
                    flat(fn.nodes[n['c'][1]])
                else:
                    conj.append(n)
            flat(fn.nodes[anc['cond']])
            for c in conj:
                if c['k'] != 'BinaryOperator' or c.get('op') != '==':
                    continue
                sides = [fn.strip(fn.nodes[k_]) for k_ in c['c']]
                tst = [s_ for s_ in sides if s_ is not None and s_['k'] == 'BinaryOperator' and s_.get('op') in ('%', '&')]
                zero = [s_ for s_ in sides if s_ is not None and (s_['k'] == 'IntegerLiteral' and s_.get('val') == '0')]
                if not tst or not zero:
                    continue
                subject = fn.nodes[tst[0]['c'][0]]
                ptrs = [y for y in fn.walk(subject['id']) if y['k'] == 'DeclRefExpr' and 'var' in y and zone.zone_is_ptr(fn.locals[y['var']]['type'])]
                if ptrs:
                    # column of the tested pointer expression
                    inner = None
                    for y in fn.walk(subject['id']):
                        if y['k'] in ('CXXReinterpretCastExpr', 'CStyleCastExpr') and y.get('c'):
                            inner = fn.nodes[y['c'][0]]
                            break
                    colf, _ = columns(fn)

                    def evp(n):
                        n = fn.strip(n)
                        if n is None:
                            return None
                        if n['k'] == 'DeclRefExpr' and 'var' in n:
                            return colf.get(n['var'])
                        if n['k'] == 'BinaryOperator' and n.get('op') == '+':
                            a, b = fn.strip(fn.nodes[n['c'][0]]), fn.strip(fn.nodes[n['c'][1]])
                            for p_, o_ in ((a, b), (b, a)):
                                pv = evp(p_)
                                if pv is not None:
                                    if o_ is not None and o_['k'] == 'DeclRefExpr' and o_.get('var') in strides:
                                        return (pv[0], pv[1] + 1)
                                    if o_ is not None and o_['k'] == 'BinaryOperator' and o_.get('op') == '*':
                                        ops = [fn.strip(fn.nodes[k_]) for k_ in o_['c']]
                                        lit = [q for q in ops if q is not None and q['k'] == 'IntegerLiteral']
                                        st_ = [q for q in ops if q is not None and q['k'] == 'DeclRefExpr' and q.get('var') in strides]
                                        if lit and st_:
                                            return (pv[0], pv[1] + int(lit[0]['val']))
                                    return None
                        return None
                    r = evp(inner) if inner is not None else None
                    if r is not None:
                        out.add(('ptr', r[0], r[1]))
                elif any(y['k'] == 'DeclRefExpr' and y.get('var') in strides for y in fn.walk(subject['id'])):
                    out.add(('stride',))
        return out
    nsite = 0
    ctl = 0
    for fn in list(ctx.C.functions) + list(ctx.F.concrete()):
        control = fn.qname.startswith('SpectraControl::aligned_second_column')
        if not control and not fn.qname.startswith('Spectra::'):
            continue
        sites = aligned_sites(fn)
        if not sites:
            continue
        col, strides = columns(fn)
        # evidence available on every way into the function: intersection over its call sites (+ nothing if it has none)
        callers = []
        pool = list(ctx.C.functions) if control else list(ctx.F.concrete())
        for g in pool:
            for c in g.walk():
                if c['k'] in ('CallExpr', 'CXXMemberCallExpr') and c.get('callee') == fn.name and (c.get('targs') or []) == (fn.d.get('targs') or []) and (control or c.get('cls') == fn.cls):
                    callers.append((g, c))
        entry_ev = None
        for g, c in callers:
            ev = evidence(g, c)
            gcol, _ = columns(g)
            args = g.call_args(c)
            # translate the caller's evidence to the callee's parameters (pointer argument i is parameter i)
            tr = set()
            for e_ in ev:
                if e_[0] == 'stride':
                    tr.add(e_)
                    continue
                for i_, a_ in enumerate(args):
                    a0 = g.strip(a_)
                    if a0 is not None and a0['k'] == 'DeclRefExpr' and gcol.get(a0.get('var')) == (e_[1], e_[2] - 0) and i_ < len(fn.params):
                        tr.add(('ptr', fn.params[i_], 0 + (e_[2] - gcol[a0['var']][1])))
            entry_ev = tr if entry_ev is None else (entry_ev & tr)
        entry_ev = entry_ev or set()
        problems = []
        for a in sites:
            nsite += 0 if control else 1
            parg = fn.call_args(a)[0]
            pv = None
            for y in fn.walk(parg['id']):
                if y['k'] == 'DeclRefExpr' and 'var' in y and zone.zone_is_ptr(fn.locals[y['var']]['type']):
                    pv = col.get(y['var'])
                    break
            ev = evidence(fn, a) | entry_ev
            if pv is None:
                problems.append('`%s`: the column of the accessed pointer is not determined' % fn.s(a['id'])[:50])
                continue
            ok = ('ptr', pv[0], pv[1]) in ev or (('ptr', pv[0], 0) in ev and ('stride',) in ev)
            if not ok:
                problems.append('`%s` is an ALIGNED access to column %d of the window behind `%s`, but the alignment tests on the way in cover %s only' %
                                (fn.s(a['id'])[:50], pv[1], fn.locals[pv[0]]['name'],
                                 sorted('column %d' % e_[2] if e_[0] == 'ptr' else 'the stride' for e_ in ev) or 'nothing'))
        if control:
            ctl += 1 if problems else 0
            continue
        ctx.check(not problems, rule, '%s::%s' % ((fn.cls or '').replace('Spectra::', ''), fn.name), fn.qname,
                  '%d aligned accesses, each with alignment evidence for its own column' % len(sites) if not problems else '; '.join(sorted(set(problems))[:3]))
    if ctl < 1:
        raise AnalysisBroken('aligned-access rule: positive control not matched')
    if nsite == 0:
        ctx.ok(rule, 'whole library', 'Spectra', 'no aligned packet access anywhere: every packet load / store is the unaligned form (positive control matched)')



def reflector_sizes_cover_block(ctx, rule='reflector-size-written-for-every-column'):
    """The readers of the reflector-size array rely on its content invariant (contracts); an entry that is never written holds
    whatever resize() left there.  update_block(il, iu) must write the size of every column il .. iu on each of its three
    paths (block size 1, 2, >= 3): the written indices, in order, start at il, end at iu and are consecutive -- the chase loop
    contributes il + i for 1 <= i < bsize - 2.  Blocks partition 0 .. n-1 (rule double-shift-block-within-matrix)."""
    for fn in ctx.F.insts('Spectra::DoubleShiftQR::update_block'):
        il, iu = (ranges.linform(fn, {'k': 'DeclRefExpr', 'var': v, 'id': -1, 'name': fn.locals[v]['name']}) if False else {('v', v): 1, 1: 0} for v in fn.params[:2])
        bs = None
        for x in fn.walk():
            if x['k'] == 'DeclStmt':
                for d in x['decls']:
                    if 'init' in d and fn.locals[d['var']]['name'] == 'bsize':
                        bs = ranges.linform(fn, fn.nodes[d['init']])
        if bs is None or ranges.lf_sub(bs, {**{k: v for k, v in iu.items()}, **{}}) is None:
            raise AnalysisBroken('%s: block size not found' % fn.qname)
        want_bs = ranges.lf_sub(iu, il)
        want_bs[1] = want_bs.get(1, 0) + 1
        problems = []
        if {k: v for k, v in ranges.lf_sub(bs, want_bs).items() if v != 0} != {}:
            problems.append('block size is not iu - il + 1')
        # writes in source order with their guards
        events = []
        for x in fn.walk():
            idx = None
            if x['k'] in ('BinaryOperator', 'CXXOperatorCallExpr') and x.get('op') == '=':
                t = sym(fn, x, inline=False)
                if t[1][0] == 'coeffRef' and t[1][1] == ('F', 'm_ref_nr'):
                    ops = fn.call_args(x) if x['k'] == 'CXXOperatorCallExpr' else [fn.nodes[c] for c in x['c']]
                    lhs = fn.strip(ops[0])
                    idx = fn.call_args(lhs)[-1]
            elif x['k'] == 'CXXMemberCallExpr' and x.get('callee') == 'compute_reflector':
                idx = fn.call_args(x)[-1]
            if idx is None:
                continue
            guards = []
            loop = None
            for a in fn.ancestors(x):
                if a['k'] == 'IfStmt' and fn.within(x, a['then']):
                    guards.append(show(sym(fn, a['cond'], inline=False)))
                if a['k'] == 'ForStmt' and loop is None:
                    loop = a
            events.append((x.get('l', 0), idx, tuple(guards), loop))
        events.sort(key=lambda e: e[0])
        paths_ = {'bsize == 1': [e for e in events if any('== 1' in g or '1 ==' in g for g in e[2])],
                  'bsize == 2': [e for e in events if any('== 2' in g or '2 ==' in g for g in e[2])],
                  'bsize >= 3': [e for e in events if not e[2]]}
        from .eigsbase import loop_range
        for name, evs in paths_.items():
            if not evs:
                problems.append('%s: no size is written' % name)
                continue
            assume = {'bsize == 1': 1, 'bsize == 2': 2}.get(name)
            cur = None          # last index written so far (linear form)
            for (_, idx, _, loop) in evs:
                f_ = ranges.linform(fn, idx)
                if f_ is None:
                    problems.append('%s: non-linear index %s' % (name, fn.s(idx['id'])))
                    break
                if loop is not None:
                    rg = loop_range(fn, loop)
                    if rg is None:
                        problems.append('%s: loop range not recognised' % name)
                        break
                    lo = ranges.linform(fn, fn.node(loop['init'])['decls'][0]['init'])
                    hi = ranges.linform(fn, fn.nodes[fn.strip(fn.nodes[loop['cond']])['c'][1]])
                    ivar = ('v', fn.node(loop['init'])['decls'][0]['var'])
                    first = {k: v for k, v in f_.items() if k != ivar}
                    for k, v in lo.items():
                        first[k] = first.get(k, 0) + v * f_.get(ivar, 0)
                    last = {k: v for k, v in f_.items() if k != ivar}
                    for k, v in hi.items():
                        last[k] = last.get(k, 0) + v * f_.get(ivar, 0)
                    last[1] = last.get(1, 0) - 1
                    seq = [(first, 'first'), (last, 'last')]
                else:
                    seq = [(f_, 'single')]
                for form, kind in seq:
                    if cur is None:
                        if {k: v for k, v in ranges.lf_sub(form, il).items() if v != 0} != {}:
                            problems.append('%s: the first size written is for column %s, not il' % (name, fn.s(idx['id'])))
                    elif kind != 'last':
                        d_ = ranges.lf_sub(form, cur)
                        if {k: v for k, v in d_.items() if v != 0} != {1: 1}:
                            problems.append('%s: column %s does not follow the previous one written' % (name, fn.s(idx['id'])))
                    if kind != 'first':
                        cur = form
                    elif cur is not None or True:
                        cur = cur if kind == 'first' and False else form
            if cur is not None:
                end = dict(cur)
                d_ = ranges.lf_sub(end, iu)
                if assume is not None:
                    # iu = il + assume - 1
                    d_ = ranges.lf_sub(end, {**il, 1: il.get(1, 0) + assume - 1})
                if {k: v for k, v in d_.items() if v != 0} != {}:
                    problems.append('%s: the last size written is for column %s, not iu' % (name, _show_lin(fn, (None, 0)) if False else str(end)))
        ctx.check(not problems, rule, 'DoubleShiftQR::update_block', fn.qname,
                  'on each of the three paths the sizes of columns il, il+1, ..., iu are written, in order, without a gap' if not problems else '; '.join(problems[:3]))


def _show_lin(fn, lin):
    v, c = lin
    if v == 'Z':
        return str(c)
    name = v[1] if v[0] == 'f' else fn.locals[v[1]]['name']
    return name + ('' if c == 0 else ('%+d' % c))


# ---------------------------------------------------------------------------------------------------
# D2: operator buffers
# ---------------------------------------------------------------------------------------------------
def operator_buffers(ctx, rule='operator-buffers-distinct'):
    n = 0
    seen = set()
    for fn in ctx.F.concrete():
        if fn.cls not in ('Spectra::Arnoldi', 'Spectra::Lanczos', 'Spectra::GenEigsComplexShiftSolver'):
            continue
        fe = ctx.E.of(fn)
        for c in fn.walk():
            if c['k'] != 'CXXMemberCallExpr' or c.get('callee') != 'perform_op':
                continue
            a = fn.call_args(c)
            if len(a) != 2:
                continue
            pin, pout = fe._expr_path(a[0]), fe._expr_path(a[1])
            n += 1
            ordn = eigsbase._ordinal(fn, c)
            inst = '%s::%s#%s' % (fn.cls.replace('Spectra::', ''), fn.name, ordn)
            problems = []
            if pin is None or pout is None:
                problems.append('buffer roots not resolved (%s, %s)' % (fn.s(a[0]), fn.s(a[1])))
            elif pin == pout:
                # same object: allowed only for different columns of the basis ... not used today
                problems.append('input and output are both rooted in %s' % '.'.join(str(p) for p in pin))
            # local buffers: declared with length n
            for p, arg in ((pin, a[0]), (pout, a[1])):
                if p and p[0] == '%local':
                    lv = fn.locals[p[1]]
                    if lv['kind'] == 'var' and lv['type'].startswith('Eigen::Matrix<'):
                        decl = [d for x in fn.walk() if x['k'] == 'DeclStmt' for d in x['decls'] if d.get('var') == p[1] and 'init' in d]
                        if decl:
                            t = sym(fn, decl[0]['init'], inline=False)
                            if t != ('F', 'm_n') and not (isinstance(t, tuple) and t[0] == 'ctor' and t[-1] == ('F', 'm_n')):
                                problems.append('local buffer %s has length %s, not n' % (lv['name'], show(t)))
            ctx.check(not problems, rule, inst, fn.qname,
                      'input %s and output %s are different objects' % (fn.s(a[0])[:30], fn.s(a[1])[:30]) if not problems else '; '.join(problems))
    if n < 12:
        raise AnalysisBroken('only %d operator applications analysed' % n)


# ---------------------------------------------------------------------------------------------------
# D3: progress of every loop; operator-application bound
# ---------------------------------------------------------------------------------------------------
# loops whose termination does not follow from a monotone comparison alone: progress statements (pretty-printed form) of which
# every back-edge path executes at least one; `cap` names the counter whose bound ends the loop.
PROGRESS_TABLE = {
    ('Spectra::TridiagEigen::compute', 'while (end > 0)'):
        ({'end--', 'iter++'}, 'each pass deflates (end decreases) or counts an iteration; iter > 30 n leaves the loop'),
    ('Spectra::UpperHessenbergSchur::compute', 'while (iu >= 0)'):
        ({'iu--', 'iu -= 2', 'total_iter++'}, 'each pass deflates one or two rows or counts an iteration; total_iter > 40 n leaves the loop'),
    ('Spectra::TridiagEigen::tridiagonal_qr_step', 'for (decl k = start; k < end && z != double(0); ++k)'):
        ({'++k'}, 'counted with an extra exit condition'),
}
EXEMPT_CLASSES = ('Spectra::LOBPCGSolver',)


def _monotone(fn, loop):
    """True if the loop has a conjunct `v <op> bound` such that every back-edge path moves v towards the bound and nothing
    moves it away or rewrites the bound."""
    cond = fn.node(loop.get('cond', -1))
    if cond is None:
        return False, 'no condition'
    conj = []

    def flat(n):
        n = fn.strip(n)
        if n['k'] == 'BinaryOperator' and n.get('op') == '&&':
            flat(fn.nodes[n['c'][0]])
            flat(fn.nodes[n['c'][1]])
        else:
            conj.append(n)
    flat(cond)
    body = loop['body']
    inc = loop.get('inc', -1)
    region = [body] + ([inc] if inc is not None and inc >= 0 else [])

    def writes(var_node_pred, region_nodes):
        ups, downs, others = [], [], []
        for r in region_nodes:
            for x in fn.walk(r):
                if x['k'] == 'UnaryOperator' and x.get('op') in ('++', '--') and var_node_pred(fn.nodes[x['c'][0]]):
                    (ups if x['op'] == '++' else downs).append(x)
                elif x['k'] == 'CompoundAssignOperator' and x.get('op') in ('+=', '-=') and var_node_pred(fn.nodes[x['c'][0]]):
                    r_ = fn.strip(fn.nodes[x['c'][1]])
                    if r_['k'] == 'IntegerLiteral' and int(r_['val']) > 0:
                        (ups if x['op'] == '+=' else downs).append(x)
                    else:
                        # non-constant step: accept a declared-positive stride (tabulated names)
                        if fn.s(r_) in ('stride', 'Increment', 'm_n + 1', 'm_n'):
                            (ups if x['op'] == '+=' else downs).append(x)
                        else:
                            others.append(x)
                elif x['k'] in ('BinaryOperator',) and x.get('op') == '=' and var_node_pred(fn.nodes[x['c'][0]]):
                    others.append(x)
        return ups, downs, others
    def leaves(n, sgn, out):
        """n as a signed sum of leaves (variables / fields of any type, pointers included) and literals; False if not of that form"""
        n = fn.strip(n)
        if n is None:
            return False
        if n['k'] in ('DeclRefExpr', 'MemberExpr') and 'cval' not in n:
            out.append((sgn, n))
            return True
        if n['k'] == 'IntegerLiteral' or 'cval' in n:
            return True
        if n['k'] == 'BinaryOperator' and n.get('op') in ('+', '-'):
            return leaves(fn.nodes[n['c'][0]], sgn, out) and leaves(fn.nodes[n['c'][1]], sgn if n['op'] == '+' else -sgn, out)
        return False
    for c in conj:
        if c['k'] != 'BinaryOperator' or c.get('op') not in ('<', '<=', '>', '>=', '!='):
            continue
        l, r = fn.strip(fn.nodes[c['c'][0]]), fn.strip(fn.nodes[c['c'][1]])
        lv = []
        if not (leaves(l, 1, lv) and leaves(r, -1, lv)):
            if l['k'] not in ('DeclRefExpr', 'MemberExpr'):
                continue
            lv = [(1, l)]
        # D = lhs - rhs as a signed sum of leaves; the loop runs while D < 0 (<, <=) or D > 0 (>, >=): one leaf must move D
        # towards 0 on every back-edge path and no other leaf of the comparison may be written in the loop
        found = None
        for (sg, leaf) in lv:
            if c['op'] == '!=' and leaf is not l:
                continue
            key = sym(fn, leaf, inline=False)
            pred = lambda n, key=key: sym(fn, n, inline=False) == key
            ups, downs, others = writes(pred, region)
            d_up = (c['op'] in ('<', '<=', '!=')) == (sg > 0)      # does the leaf have to increase?
            good = ups if d_up else downs
            bad = (downs if d_up else ups) + others
            if good and not bad:
                found = (leaf, good, [x for (_, x) in lv if x is not leaf])
                break
        if found is None:
            continue
        l_leaf, good, rest = found
        r = fn.strip(fn.nodes[c['c'][1]])
        bound_leaves = []
        for x in rest:
            bound_leaves += [m for m in fn.mentions(x) if m[0] in ('local', 'param', 'field')]
        if c['op'] == '!=':
            bound_leaves = [m for m in fn.mentions(r) if m[0] in ('local', 'param', 'field')]
        l = l_leaf
        bw = False
        for m in bound_leaves:
            if m[0] == 'field':
                bp = lambda n, m=m: fn.field_name(n) == m[1]
            else:
                bp = lambda n, m=m: fn.strip(n)['k'] == 'DeclRefExpr' and fn.strip(n).get('var') == m[2]
            u, dn, o = writes(bp, region)
            if u or dn or o:
                bw = True
        if bw:
            continue
        # every back-edge path executes a good step: from the first body element back to the loop condition
        gids = set(x['id'] for x in good)
        first = None
        for x in fn.walk(body):
            p = fn.elem_pos.get(x['id'])
            if p is not None:
                first = p
                break
        if first is None:
            return True, 'empty body'
        cpos = fn.pos_of(fn.strip(cond)) or fn.pos_of(c)
        cids = set(y['id'] for y in fn.walk(cond))
        hit = paths.search(fn, [(first[0], first[1] - 1)], stop=lambda n: n['id'] in gids or not fn.within(n, loop), target=lambda n: n['id'] in cids)
        if hit is None:
            return True, '%s moves towards %s on every back-edge path' % (fn.s(l), fn.s(r))
    return False, 'no monotone comparison found'


def loop_progress(ctx, rule='loop-makes-progress'):
    n = 0
    seen = set()
    for fn in ctx.F.concrete():
        if not fn.cls.startswith('Spectra::') or fn.cls in EXEMPT_CLASSES or not fn.cfg:
            continue
        for x in fn.walk():
            if x['k'] not in ('ForStmt', 'WhileStmt', 'DoStmt'):
                continue
            key = (fn.tq, x['l'] - fn.line, fn.s(x))
            if key in seen:
                continue
            seen.add(key)
            n += 1
            head = fn.s(x)
            ordn = [y['id'] for y in fn.walk() if y['k'] in ('ForStmt', 'WhileStmt', 'DoStmt')].index(x['id']) + 1
            inst = '%s#loop%d' % (fn.tq.replace('Spectra::', ''), ordn)
            ok, why = _monotone(fn, x)
            if ok:
                ctx.ok(rule, inst, fn.qname, '%s: %s' % (head[:60], why))
                continue
            tab = PROGRESS_TABLE.get((fn.tq, head))
            if tab is None:
                ctx.fail(rule, inst, fn.qname, 'loop `%s` is neither monotone nor in the progress table: termination not established' % head[:80])
                continue
            stmts, reason = tab
            body = x['body']
            prog = set()
            for y in fn.walk(body):
                if y['k'] in ('UnaryOperator', 'CompoundAssignOperator') and fn.s(y) in stmts:
                    prog.add(y['id'])
            if x.get('inc', -1) is not None and x.get('inc', -1) >= 0:
                for y in fn.walk(x['inc']):
                    if fn.s(y) in stmts:
                        prog.add(y['id'])
            first = None
            for y in fn.walk(body):
                p = fn.elem_pos.get(y['id'])
                if p is not None:
                    first = p
                    break
            cids = set(y['id'] for y in fn.walk(x['cond']))
            hit = paths.search(fn, [(first[0], first[1] - 1)], stop=lambda m: m['id'] in prog or not fn.within(m, x), target=lambda m: m['id'] in cids) if first else None
            ctx.check(hit is None and bool(prog), rule, inst, fn.qname,
                      '%s: every back-edge path executes one of %s (%s)' % (head[:50], sorted(stmts), reason) if hit is None and prog else
                      'a pass through `%s` can return to the loop test without executing any of %s: no progress' % (head[:60], sorted(stmts)), path=hit)
    if n < 60:
        raise AnalysisBroken('only %d loops analysed' % n)


def application_bound(ctx, rule='operator-application-bound'):
    """Structure behind the bound 2 + 2 (ncv - 1) (maxit + 1): where the operator is applied and how often those sites can run."""
    n = 0
    for fn in ctx.F.concrete():
        if fn.cls not in ('Spectra::Arnoldi', 'Spectra::Lanczos'):
            continue
        apps = [x for x in fn.walk() if x['k'] == 'CXXMemberCallExpr' and x.get('callee') == 'perform_op']
        ebs = [x for x in fn.walk() if x['k'] == 'CXXMemberCallExpr' and x.get('callee') == 'expand_basis']
        if not apps and not ebs:
            continue
        n += 1
        problems = []

        def depth(x):
            return [a for a in fn.ancestors(x) if a['k'] in ('ForStmt', 'WhileStmt', 'DoStmt')]
        if fn.name == 'init':
            if len(apps) != 2 or any(depth(a) for a in apps):
                problems.append('init applies the operator %d times (%d inside loops); the bound assumes 2 outside loops' % (len(apps), sum(1 for a in apps if depth(a))))
        elif fn.name == 'factorize_from':
            if len(apps) != 1 or len(depth(apps[0])) != 1:
                problems.append('factorize_from applies the operator at %d sites / loop depth %s; the bound assumes one per step' % (len(apps), [len(depth(a)) for a in apps]))
            if len(ebs) > 1 and fn.cls == 'Spectra::Arnoldi' or any(len(depth(e)) != 1 for e in ebs):
                problems.append('the fresh-direction helper can run more than once per step')
            if len(ebs) == 2:
                problems.append('two fresh-direction sites')
            # loop over [from_k, to_m - 1]
            lp = depth(apps[0])[0] if apps and depth(apps[0]) else None
            if lp is not None:
                c = sym(fn, lp['cond'], inline=False)
                pn = [fn.locals[v]['name'] for v in fn.params]
                if c not in (('<=', ('L', 'i'), ('-', ('P', pn[1]), ('lit', '1'))), ('<', ('L', 'i'), ('P', pn[1]))):
                    problems.append('step loop runs while %s' % show(c))
        elif fn.name == 'expand_basis':
            if len(apps) != 1:
                problems.append('%d operator applications in the fresh-direction helper' % len(apps))
            else:
                g = [a for a in fn.ancestors(apps[0]) if a['k'] == 'IfStmt']
                okg = False
                for i in g:
                    c = sym(fn, i['cond'], inline=False)
                    if c[0] == '==' and ('lit', '0') in c and fn.within(apps[0], i['then']):
                        okg = True
                if not okg:
                    problems.append('the operator is applied on every attempt of the fresh-direction helper (up to 5 per step), not only on the first')
        else:
            if apps:
                problems.append('%s applies the operator (not accounted for in the bound)' % fn.name)
        ctx.check(not problems, rule, '%s::%s' % (fn.cls.replace('Spectra::', ''), fn.name), fn.qname,
                  'application sites as assumed by the bound 2 + 2 (ncv - 1) (maxit + 1)' if not problems else '; '.join(problems))
    if n < 12:
        raise AnalysisBroken('only %d factorization members with operator applications' % n)
    # who else applies the iteration operator: the factorization accounts for 2 + 2 (ncv - 1) (maxit + 1) applications, which leaves
    # a slack of 2 (maxit + 1) >= 2 under the stated bound 2 + 2 ncv (maxit + 1); any site in a solver class must fit into it
    from .eigsbase import SOLVER_TMPLS
    solver_classes = set(SOLVER_TMPLS) | {'Spectra::HermEigsBase', 'Spectra::GenEigsBase', 'Spectra::SymEigsBase', 'Spectra::PartialSVDSolver'}
    seen_extra = set()
    nsolver = 0
    for fn in ctx.F.concrete():
        if fn.cls not in solver_classes or not fn.cfg:
            continue
        nsolver += 1
        apps = [x for x in fn.walk() if x['k'] == 'CXXMemberCallExpr' and x.get('callee') == 'perform_op']
        if not apps or (fn.cls, fn.name) in seen_extra:
            continue
        seen_extra.add((fn.cls, fn.name))
        per = []
        for a in apps:
            lps = [l for l in fn.ancestors(a) if l['k'] in ('ForStmt', 'WhileStmt', 'DoStmt')]
            per.append(' x '.join(show(sym(fn, l['cond'], inline=False)) for l in lps) or 'once')
        bounded = all(p == 'once' for p in per) and len(apps) <= 2
        ctx.check(bounded, rule, '%s::%s' % (fn.cls.replace('Spectra::', ''), fn.name), fn.qname,
                  '%d application(s) outside loops: within the slack 2 (maxit + 1) of the bound' % len(apps) if bounded else
                  '%d application site(s) of the iteration operator in a solver member, each run while %s: with the 2 + 2 (ncv - 1) (maxit + 1) applications of the '
                  'factorization (a breakdown in every step) this exceeds 2 + 2 ncv (maxit + 1) as soon as the count is above 2 (maxit + 1) -- maxit = 0 is in the domain; '
                  'these applications are not counted by num_operations() either' % (len(apps), ' / '.join(sorted(set(per)))))
    if nsolver < 40:
        raise AnalysisBroken('only %d solver members scanned for operator applications' % nsolver)
    # compute(): one full factorization outside the restart loop; restart(): one continuation
    for base in ('Spectra::HermEigsBase', 'Spectra::GenEigsBase'):
        for comp in ctx.F.insts(base + '::compute'):
            ff = [x for x in comp.walk() if x['k'] == 'CXXMemberCallExpr' and x.get('callee') == 'factorize_from']
            ok = len(ff) == 1 and not [a for a in comp.ancestors(ff[0]) if a['k'] in ('ForStmt', 'WhileStmt', 'DoStmt')]
            ctx.check(ok, rule, base.replace('Spectra::', '') + '::compute', comp.qname,
                      'one initial factorization outside the restart loop' if ok else 'compute() factorizes %d times / inside a loop' % len(ff))
    for base in ('Spectra::HermEigsBase', 'Spectra::GenEigsBase'):
        eigsbase.restart_bound(ctx, base)


def run(ctx):
    _run(ctx)
    from . import shiftsolvers, c16
    c16.shape_predicates(ctx)
    shiftsolvers.complex_shift_backtransform_defined_at_zero(ctx)
    shiftsolvers.buckling_backtransform_pole(ctx)
    dense_kernel_contracts(ctx)
    packed_storage_contracts(ctx)
    aligned_access_evidence(ctx)
    pointer_kernel_contracts(ctx)
    stride_arguments(ctx)
    reflector_sizes_cover_block(ctx)
    permutation_sign_structure(ctx)


# D15: BKLDLT::solve_inplace -- block-structure invariant of the permutation array (rules/blockscan.py)
def permutation_sign_structure(ctx, rule='permutation-sign-structure'):
    from . import blockscan
    blockscan.writers(ctx, rule)
    blockscan.compressed_list(ctx, rule)
    blockscan.readers(ctx, _check_sites, rule)


def _run(ctx):
    # member calls kill only the integer fields their callee may write (interprocedural may-write summaries)
    zone.CALL_MAY_WRITE = lambda fn, call: set(p[0] for p in ctx.E.call_may_write(fn, call) if p)
    index_ranges(ctx)
    factorization_ranges(ctx)
    double_shift_blocks(ctx)
    operator_buffers(ctx)
    loop_progress(ctx)
    application_bound(ctx)
    fz.accept_implies_positive(ctx)
    fz.beta_divisions_guarded(ctx)
    fz.norm_divisions_guarded(ctx)
    fz.noise_test_reference_global(ctx)
