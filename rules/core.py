"""Check driver plumbing: obligations, known findings, evidence, exit codes."""
import json
import os
import re
import sys
import time

VERIF = os.path.dirname(os.path.dirname(os.path.abspath(__file__)))
KNOWN = os.path.join(VERIF, 'known_findings.txt')
# when a scratch copy is analysed (self-tests, seeded changes) evidence and reports go to a side directory:
# evidence/ only ever describes runs against /repo itself
OUT = VERIF if os.environ.get('SPECTRA_REPO', '/repo') == '/repo' else os.environ.get('VERIF_ALT_OUT', '/tmp/verif-alt-out')


class Ctx:
    def __init__(self, pid, tier, facts, controls, effects, info):
        self.pid = pid
        self.tier = tier
        self.F = facts
        self.C = controls          # Facts over the positive-control TUs
        self.E = effects
        self.info = info
        self.obligations = []      # dicts: rule, instance, where, ok, detail
        self.notes = []
        self.t0 = time.time()

    # a rule instance that was evaluated and holds
    def ok(self, rule, instance, where='', detail=''):
        self.obligations.append({'rule': rule, 'instance': instance, 'where': where, 'ok': True, 'detail': detail})

    # a rule instance that is violated
    def fail(self, rule, instance, where='', detail='', path=None):
        o = {'rule': rule, 'instance': instance, 'where': where, 'ok': False, 'detail': detail}
        if path:
            o['path'] = path
        self.obligations.append(o)

    def check(self, cond, rule, instance, where='', detail='', path=None):
        if cond:
            self.ok(rule, instance, where, detail)
        else:
            self.fail(rule, instance, where, detail, path)
        return cond

    def note(self, s):
        self.notes.append(s)

    def count(self, rule):
        return sum(1 for o in self.obligations if o['rule'] == rule)

    def require(self, rule, floor):
        """Vacuity guard: a rule must have evaluated at least `floor` instances."""
        from .facts import AnalysisBroken
        n = self.count(rule)
        if n < floor:
            raise AnalysisBroken('rule %s evaluated %d instance(s), fewer than the %d confirmed by hand' % (rule, n, floor))


def load_known():
    """known_findings.txt: `finding: property=<id> rule=<rule> site=<instance> <text>` and `fixed: ...` lines."""
    out = []
    if not os.path.exists(KNOWN):
        return out
    for line in open(KNOWN):
        line = line.strip()
        if not line.startswith('finding:'):
            continue
        m = re.match(r'finding:\s+property=(\S+)\s+rule=(\S+)\s+site=(\S+)\s+(.*)', line)
        if m:
            out.append({'property': m.group(1), 'rule': m.group(2), 'site': m.group(3), 'text': m.group(4)})
    return out


def finish(ctx, seed=0):
    """Prints the verdict lines, writes evidence and reports, returns the exit code."""
    pid = ctx.pid
    known = [k for k in load_known() if k['property'] == pid]
    viol = []
    known_hit = []
    for o in ctx.obligations:
        if o['ok']:
            continue
        hit = None
        for k in known:
            if k['rule'] == o['rule'] and k['site'] == o['instance']:
                hit = k
                break
        if hit:
            known_hit.append((o, hit))
        else:
            viol.append(o)
    rep_dir = os.path.join(OUT, 'reports', pid)
    os.makedirs(rep_dir, exist_ok=True)
    for f in os.listdir(rep_dir):
        os.remove(os.path.join(rep_dir, f))
    seen_k = set()
    for o, k in known_hit:
        if (o['rule'], o['instance']) in seen_k:
            continue
        seen_k.add((o['rule'], o['instance']))
        print('KNOWN-FINDING: property=%s rule=%s site=%s %s' % (pid, o['rule'], o['instance'], k['text']))
    # one VIOLATION line per (rule, instance): the instantiations that exhibit it are listed in the report
    grouped = {}
    for o in viol:
        grouped.setdefault((o['rule'], o['instance']), []).append(o)
    for i, ((r, inst), os_) in enumerate(sorted(grouped.items())):
        o = os_[0]
        p = os.path.join(rep_dir, '%d.json' % i)
        with open(p, 'w') as fh:
            json.dump({'property': pid, 'tier': ctx.tier, **o, 'instantiations': [x['where'] for x in os_]}, fh, indent=1)
        print('  %s: rule %s, instance %s: %s' % (o['where'], o['rule'], o['instance'], o['detail']))
        if len(os_) > 1:
            print('      (and %d more instantiation(s) of the same construct)' % (len(os_) - 1))
        for step in o.get('path', [])[:40]:
            print('      via %s' % step)
        print('VIOLATION property=%s replay=%s' % (pid, p))
    total = len(ctx.obligations)
    good = sum(1 for o in ctx.obligations if o['ok'])
    rules = sorted(set(o['rule'] for o in ctx.obligations))
    per_rule = {r: [sum(1 for o in ctx.obligations if o['rule'] == r and o['ok']),
                    sum(1 for o in ctx.obligations if o['rule'] == r)] for r in rules}
    samples = []
    seen_rules = set()
    for o in ctx.obligations:
        if o['rule'] not in seen_rules or not o['ok']:
            seen_rules.add(o['rule'])
            samples.append({k: o[k] for k in ('rule', 'instance', 'where', 'ok', 'detail')})
        if len(samples) >= 40:
            break
    distinct = len(set((o['rule'], o['instance'], o['where']) for o in ctx.obligations))
    ev = {
        'property_id': pid,
        'tier': ctx.tier,
        'seed': seed,
        'level': 'other',
        'coverage': {
            'explanation': ctx.info.get('explanation', ''),
            'obligations': total,
            'discharged': good,
            'evaluations': total,
            'distinct_nontrivial': distinct,
            'rule': 'one obligation per (rule, instance, site) over the instantiated program; distinct = distinct triples',
            'per_rule_discharged_of_total': per_rule,
            'samples': samples,
            'exhaustive': True,
            'translation_units': ctx.info.get('drivers', []),
            'functions_analysed': len(ctx.F.concrete()),
            'function_templates_seen': len(ctx.F.patterns),
            'known_findings_matched': [o['instance'] for o, _ in known_hit],
            'checker_cmd': './check %s --tier %s' % (pid, ctx.tier),
            'trusted_base': ['clang 14 parser / template instantiation / CFG builder', 'frozen tables in rules/tables.py',
                             'Eigen and libstdc++ implementations'],
            'notes': ctx.notes,
        },
        'assumptions': ctx.info.get('assumptions', []),
        'wall_s': round(time.time() - ctx.t0 + ctx.info.get('extract_s', 0), 2),
        'violations': len(viol),
    }
    os.makedirs(os.path.join(OUT, 'evidence'), exist_ok=True)
    with open(os.path.join(OUT, 'evidence', pid + '.json'), 'w') as fh:
        json.dump(ev, fh, indent=1)
    print('%s: %d/%d obligations discharged over %d rules (%s tier), %d violation(s), %d known finding(s)' %
          (pid, good, total, len(rules), ctx.tier, len(viol), len(known_hit)))
    for r in rules:
        print('   %-28s %d/%d' % (r, per_rule[r][0], per_rule[r][1]))
    return 1 if viol else 0
