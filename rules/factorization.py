"""Rules about the Krylov factorization classes (Arnoldi, Lanczos) and the inner-product adaptor (ArnoldiOp):
used by C03 (B-aware layering), C07 (structural clauses of the factorization invariant) and C13 (guarded divisions)."""
from .facts import AnalysisBroken
from . import paths
from .sym import sym, show, atoms

FAC = ('Spectra::Arnoldi', 'Spectra::Lanczos')
REDUCTIONS = {'norm', 'squaredNorm', 'stableNorm', 'blueNorm', 'hypotNorm', 'lpNorm', 'dot', 'normalize', 'normalized', 'stableNormalize',
              'stableNormalized'}


def _direct_reductions(fn):
    """(node, description) for Eigen reductions / adjoint products applied directly (not through the adaptor)."""
    out = []
    for x in fn.walk():
        if x['k'] == 'CXXMemberCallExpr' and x.get('org') == 'E' and x.get('callee') in REDUCTIONS:
            out.append((x, '%s()' % x['callee']))
        if x['k'] == 'CXXOperatorCallExpr' and x.get('op') == '*' and x.get('org') == 'E':
            args = fn.call_args(x)
            if len(args) == 2:
                l = fn.strip(args[0])
                if l is not None and l['k'] == 'CXXMemberCallExpr' and l.get('callee') in ('adjoint', 'transpose'):
                    out.append((x, '%s() * ...' % l['callee']))
        # a length of an n-vector of the factorization measured entry-wise (max / min / sum of |entries|): Euclidean as well --
        # the entries of a B-normalised vector scale with 1 / sqrt(||B||).  Coefficient vectors (V^H f, h) are not n-vectors.
        if x['k'] == 'CXXMemberCallExpr' and x.get('org') == 'E' and x.get('callee') in ('maxCoeff', 'minCoeff', 'sum', 'mean'):
            o = fn.call_object(x)
            root = None
            while o is not None:
                o = fn.strip(o)
                if o is None:
                    break
                if o['k'] == 'MemberExpr' and o.get('mk') == 'field':
                    root = ('F', o['member'])
                    break
                if o['k'] == 'DeclRefExpr' and 'var' in o:
                    root = (('P' if o['var'] in fn.params else 'L'), fn.locals[o['var']]['name'])
                    break
                if o['k'] == 'CXXMemberCallExpr':
                    o = fn.call_object(o)
                else:
                    break
            if root in (('F', 'm_fac_f'), ('P', 'f'), ('L', 'w')):
                out.append((x, '%s() of the entries of %s' % (x['callee'], root[1])))
    return out


def no_direct_reduction(ctx, rule='no-direct-reduction-in-factorization'):
    """Inside Arnoldi / Lanczos every inner product and norm goes through the B-aware adaptor."""
    ctl = sum(len(_direct_reductions(f)) for f in ctx.C.functions if 'DirectReductions' in f.qname)
    if ctl < 3:
        raise AnalysisBroken('positive control for direct reductions not matched (%d of 3)' % ctl)
    n_adaptor = 0
    n_fn = 0
    for fn in ctx.F.concrete():
        if fn.cls not in FAC:
            continue
        n_fn += 1
        for x, what in _direct_reductions(fn):
            # `Vf.cwiseAbs().maxCoeff()` is not in REDUCTIONS; a product V * Vf is not an inner product
            ordn = [y['id'] for y, _ in _direct_reductions(fn)].index(x['id']) + 1
            ctx.fail(rule, '%s::%s#%d' % (fn.cls.replace('Spectra::', ''), fn.name, ordn), fn.qname,
                     'direct %s at %s bypasses the inner-product adaptor: Euclidean instead of B-inner product in generalized problems' % (what, fn.loc(x)))
        for x in fn.walk():
            if x['k'] == 'CXXMemberCallExpr' and x.get('cls') == 'Spectra::ArnoldiOp' and x.get('callee') in ('norm', 'inner_product', 'adjoint_product'):
                n_adaptor += 1
    if n_fn < 10 or n_adaptor < 22:
        raise AnalysisBroken('only %d factorization members / %d adaptor calls analysed' % (n_fn, n_adaptor))
    ctx.ok(rule, '<Arnoldi, Lanczos>', 'include/Spectra/LinAlg', '%d member functions: %d adaptor inner-product / norm calls, no direct reduction' % (n_fn, n_adaptor))


def adaptor_agreement(ctx, rule='adaptor-applies-B-once'):
    """ArnoldiOp with a B operator: inner_product, adjoint_product apply B exactly once to their right argument and reduce against
    the result; norm is sqrt(real(inner_product(x, x))).  Identity specialisation: plain dot / adjoint product / norm."""
    nb = ni = 0
    for fn in ctx.F.concrete():
        if fn.cls != 'Spectra::ArnoldiOp' or fn.name not in ('inner_product', 'adjoint_product', 'norm'):
            continue
        identity = len(fn.cargs) >= 3 and fn.cargs[2] == 'Spectra::IdentityBOp'
        pn = [fn.locals[v]['name'] for v in fn.params]
        bcalls = [x for x in fn.walk() if x['k'] == 'CXXMemberCallExpr' and x.get('callee') == 'perform_op']
        rets = [sym(fn, r['value'], inline=False) for r in fn.walk() if r['k'] == 'ReturnStmt']
        asg = [sym(fn, x, inline=False) for x in fn.walk() if x['k'] in ('CXXOperatorCallExpr', 'BinaryOperator') and x.get('op') == '=']
        problems = []
        if identity:
            ni += 1
            if bcalls:
                problems.append('identity adaptor applies an operator')
            if fn.name == 'inner_product' and rets != [('dot', ('P', pn[0]), ('P', pn[1]))]:
                problems.append('returns %s' % [show(r) for r in rets])
            if fn.name == 'adjoint_product' and not (len(asg) == 1 and asg[0][2] == ('*', ('adjoint', ('P', pn[0])), ('P', pn[1])) and asg[0][1] == ('P', pn[2])):
                problems.append('computes %s' % [show(a) for a in asg])
            if fn.name == 'norm' and rets != [('norm', ('P', pn[0]))]:
                problems.append('returns %s' % [show(r) for r in rets])
        else:
            nb += 1
            if fn.name in ('inner_product', 'adjoint_product'):
                if len(bcalls) != 1:
                    problems.append('%d applications of B (expected 1)' % len(bcalls))
                else:
                    b = bcalls[0]
                    a = [sym(fn, y, inline=False) for y in fn.call_args(b)]
                    if sym(fn, fn.call_object(b), inline=False)[0] != 'F' or 'Bop' not in show(sym(fn, fn.call_object(b), inline=False)):
                        problems.append('the operator applied is %s, not the B operator' % fn.s(fn.call_object(b)))
                    if a[0] != ('data', ('P', pn[1])) or a[1][0] != 'data' or a[1][1][0] != 'F':
                        problems.append('B is applied to (%s), not to the right argument into the cache' % ', '.join(show(y) for y in a))
                    else:
                        cache = a[1][1]
                        if fn.name == 'inner_product' and rets != [('dot', ('P', pn[0]), cache)]:
                            problems.append('returns %s, not x.dot(B y)' % [show(r) for r in rets])
                        if fn.name == 'adjoint_product' and not (len(asg) == 1 and asg[0][2] == ('*', ('adjoint', ('P', pn[0])), cache) and asg[0][1] == ('P', pn[2])):
                            problems.append('computes %s, not X^H (B y)' % [show(a_) for a_ in asg])
                        # the application precedes the reduction
            else:
                ok = len(rets) == 1 and rets[0][0] == 'call' and rets[0][1] == 'sqrt' and rets[0][2][0] == 'call' and rets[0][2][1] == 'real' and \
                    rets[0][2][2] == ('inner_product', ('this',), ('P', pn[0]), ('P', pn[0]))
                if not ok:
                    problems.append('norm is %s, not sqrt(real(<x, x>_B))' % [show(r) for r in rets])
        ctx.check(not problems, rule, 'ArnoldiOp<%s>::%s' % ('identity' if identity else 'B', fn.name), fn.qname,
                  'applies B once to the right argument, then reduces' if not identity and not problems else ('plain Euclidean reduction' if not problems else '; '.join(problems)))
    if nb < 3 or ni < 3:
        raise AnalysisBroken('adaptor members analysed: %d with B, %d identity' % (nb, ni))


# ---------------------------------------------------------------------------------------------------
# C07-D2: H(i, i-1) is 0 exactly on the iterations that generated a fresh direction
# ---------------------------------------------------------------------------------------------------
def subdiagonal_on_breakdown(ctx, rule='subdiagonal-zero-iff-fresh-direction'):
    n = 0
    for fn in ctx.F.concrete():
        if fn.cls not in FAC or fn.name != 'factorize_from':
            continue
        n += 1
        problems = []
        targets = []
        for x in fn.walk():
            if x['k'] in ('BinaryOperator', 'CXXOperatorCallExpr') and x.get('op') == '=':
                t = sym(fn, x, inline=False)
                if t[1][0] == '()' and t[1][1] == ('F', 'm_fac_H') and len(t[1]) == 4 and t[1][3] == ('-', t[1][2], ('lit', '1')) and t[2][0] == '?:':
                    targets.append((x, t))
        if len(targets) != 1:
            problems.append('%d assignments of the sub-diagonal entry H(i, i-1) from a conditional (expected 1)' % len(targets))
        else:
            x, t = targets[0]
            cond, a, b = t[2][1], t[2][2], t[2][3]
            if cond[0] != 'L' or a != ('lit', '0') or b != ('F', 'm_beta'):
                problems.append('H(i, i-1) = %s, not (fresh direction ? 0 : beta)' % show(t[2]))
            else:
                # locate the conditional operator node and its arms
                co = [y for y in fn.walk(x) if y['k'] == 'ConditionalOperator'][0]
                arm_true, arm_false = co['c'][1], co['c'][2]
                eb = paths.positions_of(fn, lambda m: m['k'] == 'CXXMemberCallExpr' and m.get('callee') == 'expand_basis')
                if not eb:
                    problems.append('factorize_from never generates a fresh direction')
                else:
                    # (a) after a fresh direction was generated the beta arm is unreachable
                    hit = paths.search(fn, eb, stop=lambda m: False, target=lambda m: fn.within(m, arm_false), feas=True,
                                       assume=None)
                    # restrict to the same iteration: stop at the loop increment
                    loops = [y for y in fn.walk() if y['k'] == 'ForStmt']
                    inc = fn.node(loops[0].get('inc', -1)) if loops else None
                    hit = None
                    for e in eb:
                        en = paths.node_at(fn, *e)
                        h = paths.search(fn, [e], stop=lambda m, inc=inc: inc is not None and m['id'] == inc['id'],
                                         target=lambda m: fn.within(m, arm_false), feas=True, assume=paths.enclosing_assumptions(fn, en))
                        hit = hit or h
                    if hit is not None:
                        problems.append('after a fresh direction was generated the old beta can still be stored in H(i, i-1)')
                    # (b) without a fresh direction the zero arm is unreachable (within one iteration, from the loop test)
                    if loops:
                        first = None
                        for y in fn.walk(loops[0]['body']):
                            p = fn.elem_pos.get(y['id'])
                            if p is not None:
                                first = p
                                break
                        ebids = set(paths.node_at(fn, *p)['id'] for p in eb)
                        hit = paths.search(fn, [(first[0], first[1] - 1)], stop=lambda m: m['id'] in ebids or (inc is not None and m['id'] == inc['id']),
                                           target=lambda m: fn.within(m, arm_true), feas=True)
                        if hit is not None:
                            problems.append('H(i, i-1) can be zeroed although no fresh direction was generated in this step')
            # Lanczos: the mirror entry copies it
            if fn.cls == 'Spectra::Lanczos':
                mir = [sym(fn, y, inline=False) for y in fn.walk() if y['k'] in ('BinaryOperator', 'CXXOperatorCallExpr') and y.get('op') == '=']
                if not any(m[1][0] == '()' and m[1][1] == ('F', 'm_fac_H') and m[2] == t[1] for m in mir):
                    problems.append('the symmetric entry H(i-1, i) is not set from H(i, i-1)')
        ctx.check(not problems, rule, '%s::factorize_from' % fn.cls.replace('Spectra::', ''), fn.qname,
                  'H(i, i-1) = 0 iff expand_basis ran in this step, else beta' if not problems else '; '.join(problems))
    if n < 6:
        raise AnalysisBroken('only %d factorize_from instantiations' % n)


# ---------------------------------------------------------------------------------------------------
# C07-D3: shift accounting in the restart loops
# ---------------------------------------------------------------------------------------------------
def _dimension_decrement(ctx, callee):
    """How much the called compress_H overload lowers the subspace dimension (m_k)."""
    dec = 0
    for x in callee.walk():
        if x['k'] == 'UnaryOperator' and x.get('op') == '--' and callee.field_name(callee.nodes[x['c'][0]]) == 'm_k':
            dec += 1
        if x['k'] == 'CompoundAssignOperator' and x.get('op') == '-=' and callee.field_name(callee.nodes[x['c'][0]]) == 'm_k':
            r = callee.strip(callee.nodes[x['c'][1]])
            if r['k'] != 'IntegerLiteral':
                raise AnalysisBroken('%s: non-constant dimension decrement' % callee.qname)
            dec += int(r['val'])
    return dec


def shift_accounting(ctx, rule='restart-shift-accounting'):
    from .eigsbase import loop_range
    n = 0
    for base in ('Spectra::HermEigsBase', 'Spectra::GenEigsBase'):
        for fn in ctx.F.insts(base + '::restart'):
            n += 1
            problems = []
            loops = [x for x in fn.walk() if x['k'] == 'ForStmt']
            calls = [x for x in fn.walk() if x['k'] == 'CXXMemberCallExpr' and x.get('callee') == 'compress_H']
            if not calls:
                problems.append('restart() never compresses H')
            loop = None
            for lp in loops:
                if all(fn.within(c, lp['body']) for c in calls):
                    loop = lp
            if loop is None:
                problems.append('shift applications are not inside one counted loop')
            else:
                rg = loop_range(fn, loop)
                if rg is None:
                    problems.append('shift loop is not `for (i = lo; i < hi; i++)`')
                else:
                    var, lo, hi = rg
                    pk = fn.locals[fn.params[0]]['name']
                    # total advance available = hi - lo must equal ncv - k
                    span = (lo, hi)
                    if not ((lo == ('P', pk) and hi[0] == 'F') or (lo == ('lit', '0') and (show(hi) in ('nshift',) or sym(fn, loop['cond'])[2] == ('-', ('F', 'm_ncv'), ('P', pk))))):
                        problems.append('shift loop runs over [%s, %s), not over the ncv - k unwanted Ritz values' % (show(lo), show(hi)))
                    for c in calls:
                        callee = ctx.F.resolve(c)
                        if callee is None:
                            raise AnalysisBroken('%s: compress_H overload not analysed' % fn.qname)
                        dec = _dimension_decrement(ctx, callee)
                        # extra increments of the loop variable in the branch that contains the call
                        br = None
                        for a in fn.ancestors(c):
                            if a['k'] == 'IfStmt':
                                br = a['then'] if fn.within(c, a['then']) else a.get('else', -1)
                                break
                            if a['id'] == loop['id']:
                                break
                        scope = br if br is not None and br >= 0 else loop['body']
                        extra = sum(1 for y in fn.walk(scope) if y['k'] == 'UnaryOperator' and y.get('op') == '++' and sym(fn, y['c'][0], inline=False) == ('L', var))
                        adv = 1 + extra
                        if adv != dec:
                            problems.append('%s lowers the dimension by %d but the loop index advances by %d in that branch' %
                                            (show(sym(fn, fn.call_args(c)[0], inline=False)), dec, adv))
                        # the overload called matches the decomposition that was computed in the same branch
                        arg = sym(fn, fn.call_args(c)[0], inline=False)
                        comp = [y for y in fn.walk(scope) if y['k'] == 'CXXMemberCallExpr' and y.get('callee') == 'compute' and sym(fn, fn.call_object(y), inline=False) == arg]
                        if len(comp) != 1:
                            problems.append('%s is not (re)computed in the branch that applies it' % show(arg))
            # after the loop: compress_V then factorize_from(k, ncv, counter) then retrieve, on every path
            cv = paths.positions_of(fn, lambda m: m['k'] == 'CXXMemberCallExpr' and m.get('callee') == 'compress_V')
            ff = paths.positions_of(fn, lambda m: m['k'] == 'CXXMemberCallExpr' and m.get('callee') == 'factorize_from')
            if len(cv) != 1 or len(ff) != 1:
                problems.append('%d compress_V / %d factorize_from calls' % (len(cv), len(ff)))
            else:
                ffn = paths.node_at(fn, *ff[0])
                a = [sym(fn, y, inline=False) for y in fn.call_args(ffn)]
                if a[0] != ('P', fn.locals[fn.params[0]]['name']) or a[1][0] != 'F':
                    problems.append('factorization is continued from (%s), not from (k, ncv)' % ', '.join(show(y) for y in a[:2]))
                if not paths.dominated_by(fn, ff[0], lambda m: m['k'] == 'CXXMemberCallExpr' and m.get('callee') == 'compress_V'):
                    problems.append('factorize_from is not preceded by compress_V')
                if calls and loop is not None:
                    # every normal path from the early-return test to the exit passes compress_V
                    cid = paths.node_at(fn, *cv[0])['id']
                    hit = paths.search(fn, paths.positions_of(fn, lambda m: m['k'] == 'CXXMemberCallExpr' and m.get('callee') == 'compress_H'),
                                       stop=lambda m: m['id'] == cid, target=lambda m: m['k'] == 'ReturnStmt', exit_is_target=lambda b: True, normal_only=True)
                    if hit is not None:
                        problems.append('a path applies shifts to H and leaves without updating V')
            ctx.check(not problems, rule, base.replace('Spectra::', '') + '::restart', fn.qname,
                      'each shift lowers the dimension by as much as the loop index advances; compress_V and factorize_from(k, ncv) follow on every path'
                      if not problems else '; '.join(problems))
    if n < 8:
        raise AnalysisBroken('only %d restart instantiations' % n)


# ---------------------------------------------------------------------------------------------------
# C07-D4 / C13-D4: divisions by the residual norm are guarded by positivity
# ---------------------------------------------------------------------------------------------------
POSITIVE_CONSTANTS = {'m_eps': 'machine epsilon (> 0)', 'm_near_0': '10 * smallest normal number (> 0)'}


def accept_implies_positive(ctx, rule='fresh-direction-has-positive-norm'):
    """expand_basis returns early (accepts the candidate) only under `ortho_err < eps * fnorm` with a STRICT comparison, where
    ortho_err >= 0 (maximum of absolute values) and eps > 0: the accepted norm is > 0, so the caller's f / beta is defined."""
    n = 0
    for fn in ctx.F.concrete():
        if fn.cls != 'Spectra::Arnoldi' or fn.name != 'expand_basis':
            continue
        n += 1
        problems = []
        pn = [fn.locals[v]['name'] for v in fn.params]
        ptypes = [fn.locals[v]['type'] for v in fn.params]
        normp = [p for p, t in zip(pn, ptypes) if t in ('double &', 'float &', 'long double &')]
        # early exits of the attempts loop = acceptance of the candidate: a return inside the loop, or a break of that loop
        loops = [x for x in fn.walk() if x['k'] == 'ForStmt']
        outer = loops[0] if loops else None
        exits = []
        if outer is not None:
            for x in fn.walk(outer['body']):
                if x['k'] == 'ReturnStmt':
                    exits.append(x)
                elif x['k'] == 'BreakStmt':
                    encl = [a for a in fn.ancestors(x) if a['k'] in ('ForStmt', 'WhileStmt', 'DoStmt', 'SwitchStmt')]
                    if encl and encl[0]['id'] == outer['id']:
                        exits.append(x)
        if len(normp) != 1 or outer is None or not exits:
            raise AnalysisBroken('%s: norm out-parameter / accepting exit of the attempts loop not identified' % fn.qname)
        fnorm = normp[0]
        for r in exits:
            g = None
            for a in fn.ancestors(r):
                if a['k'] == 'IfStmt' and fn.within(r, a['then']):
                    g = a
                    break
            if g is None:
                problems.append('an accepting exit is unconditional')
                continue
            c = sym(fn, g['cond'], inline=False)
            conj = [c]
            while any(y_[0] == '&&' for y_ in conj):
                conj = [z_ for y_ in conj for z_ in (y_[1:] if y_[0] == '&&' else [y_])]
            is_orth = lambda t_: t_[0] == '<' and t_[1][0] == 'L' and t_[2][0] == '*' and ('P', fnorm) in t_[2][1:] and \
                any(isinstance(z, tuple) and z[0] == 'F' and z[1] in POSITIVE_CONSTANTS for z in t_[2][1:])
            is_orth_weak = lambda t_: t_[0] == '<=' and is_orth(('<',) + tuple(t_[1:]))
            c = ([t_ for t_ in conj if is_orth(t_) or is_orth_weak(t_)] or [c])[0]
            ok = is_orth(c)
            weak = is_orth_weak(c)
            # the candidate must also be more than a rounding residue of what it was before the projection: a local that holds
            # the norm of the candidate, declared before the first projection, appears on the small side of a strict comparison
            # with the accepted norm
            pre = [fn.locals[d['var']]['name'] for x in fn.walk(outer['body']) if x['k'] == 'DeclStmt' for d in x['decls']
                   if 'init' in d and show(sym(fn, d['init'], inline=False)).startswith('norm(') and
                   all(x['l'] < y['l'] for y in fn.walk(outer['body']) if y['k'] == 'CXXMemberCallExpr' and y.get('callee') == 'adjoint_product')]
            rel = [t_ for t_ in conj if t_[0] == '<' and ('P', fnorm) == t_[2] and any(('L', p_) in atoms_of(t_[1]) for p_ in pre)]
            if weak and rel:
                ok = True       # ||f|| > sqrt(eps) * (norm before the projection) >= 0 is strict: the accepted norm is positive anyway
            if (ok or weak) and not rel:
                problems.append('candidate accepted under `%s` alone: a candidate that lies in span(V) up to rounding leaves noise, which the correction passes shrink until its squares underflow '
                                '(float: 1e-23), and the relative orthogonality test then passes on a vector whose norm has no correct digit -- V^H V = I is lost (0.09 .. 0.9); nothing compares the '
                                'accepted norm with the norm of the candidate before the projection' % fn.s(g['cond'])[:60])
            if not ok:
                problems.append('candidate accepted under `%s`: does not imply ||f|| > 0 (a zero vector satisfies a non-strict test), the caller then divides by zero' % fn.s(g['cond']))
            else:
                # the left-hand side is a maximum of absolute values
                lhs = c[1][1]
                asg = [sym(fn, x, inline=False)[2] for x in fn.walk() if x['k'] == 'BinaryOperator' and x.get('op') == '=' and sym(fn, x['c'][0], inline=False) == ('L', lhs)]
                ini = [sym(fn, d['init'], inline=False) for x in fn.walk() if x['k'] == 'DeclStmt' for d in x['decls'] if 'init' in d and fn.locals[d['var']]['name'] == lhs]
                for v in asg + ini:
                    if not (v[0] == 'maxCoeff' and v[1][0] == 'cwiseAbs'):
                        problems.append('%s = %s is not a maximum of absolute values' % (lhs, show(v)))
        # the norm handed back is the adaptor norm of the vector handed back, computed after its last modification
        ctx.check(not problems, rule, 'Arnoldi::expand_basis', fn.qname,
                  'accepted only when ortho_err < eps * ||f|| (strict, ortho_err >= 0, eps > 0)  =>  ||f|| > 0' if not problems else '; '.join(problems))
    if n < 6:
        raise AnalysisBroken('only %d expand_basis instantiations' % n)


def beta_divisions_guarded(ctx, rule='division-by-beta-guarded'):
    """In factorize_from every division by the residual norm is reached only after (i) the test `beta < near_0` was false, or
    (ii) a fresh direction was generated (whose norm is positive by the rule above), with no write of beta in between."""
    n = 0
    for fn in ctx.F.concrete():
        if fn.cls not in FAC or fn.name != 'factorize_from':
            continue
        divs = []
        for x in fn.walk():
            if x['k'] in ('CXXOperatorCallExpr', 'BinaryOperator') and x.get('op') in ('/', '/='):
                ops = fn.call_args(x) if x['k'] == 'CXXOperatorCallExpr' else [fn.nodes[c] for c in x['c']]
                if sym(fn, ops[1], inline=False) == ('F', 'm_beta'):
                    divs.append(x)
        if not divs:
            raise AnalysisBroken('%s: no division by beta found' % fn.qname)
        fe = ctx.E.of(fn)
        beta_writes = set(a.node for a in fe.accesses if a.path == ('m_beta',) and a.mode == 'w')
        guards = []
        for i in fn.walk():
            if i['k'] in ('IfStmt', 'DeclStmt', 'BinaryOperator'):
                pass
        # the comparison nodes beta < near_0
        cmps = [x for x in fn.walk() if x['k'] == 'BinaryOperator' and x.get('op') == '<' and sym(fn, x, inline=False) == ('<', ('F', 'm_beta'), ('F', 'm_near_0'))]
        ebs = set(x['id'] for x in fn.walk() if x['k'] == 'CXXMemberCallExpr' and x.get('callee') == 'expand_basis')
        loops = [y for y in fn.walk() if y['k'] == 'ForStmt']
        for k, d in enumerate(divs):
            n += 1
            # every path from a write of beta (or from the loop entry) to the division passes the comparison or expand_basis
            cids = set(c['id'] for c in cmps)
            starts = [fn.pos_of(w) for w in beta_writes if fn.pos_of(w) and w not in ebs]
            hit = paths.search(fn, starts, stop=lambda m: m['id'] in cids or m['id'] in ebs, target=lambda m, d=d: m['id'] == d['id'])
            hit0 = paths.search(fn, [], stop=lambda m: m['id'] in cids or m['id'] in ebs, target=lambda m, d=d: m['id'] == d['id'], include_entry=True)
            ok = hit is None and hit0 is None and bool(cmps)
            ctx.check(ok, rule, '%s::factorize_from#div%d' % (fn.cls.replace('Spectra::', ''), k + 1), fn.qname,
                      'division by beta follows the test beta < near_0 (or a fresh direction) on every path' if ok else
                      'division by beta at %s can be reached after beta was written without testing it against near_0' % fn.loc(d),
                      path=hit or hit0)
    if n < 6:
        raise AnalysisBroken('only %d divisions by beta analysed' % n)


def norm_divisions_guarded(ctx, rule='division-by-norm-guarded'):
    """A vector is normalised by dividing it by its norm.  When the vector can be exactly zero for an input the properties name
    (A v0 = 0: the zero matrix, a nilpotent or rank-deficient matrix with the start vector in its null space) the division is
    0/0 and every later quantity is NaN: the user's operator is applied to NaN vectors and the run ends in an internal
    "decomposition failed" exception.  Every division by a local that holds a norm must be unreachable when that norm is below the
    class's zero threshold: dominated by a test of it whose small branch leaves or takes another way."""
    n = 0
    seen = set()
    for fn in ctx.F.concrete():
        if fn.cls not in FAC or not fn.cfg or fn.d.get('ctor') or (fn.cls, fn.name) in seen:
            continue
        norms = {}
        for x in fn.walk():
            if x['k'] == 'DeclStmt':
                for d in x['decls']:
                    if 'init' in d and 'var' in d:
                        t = sym(fn, d['init'], inline=False)
                        if isinstance(t, tuple) and t[0] in ('norm', 'stableNorm', 'blueNorm') or (isinstance(t, tuple) and t[0] == 'call' and t[1] == 'norm'):
                            norms[d['var']] = (fn.locals[d['var']]['name'], show(t))
        for x in fn.walk():
            if not (x['k'] in ('CXXOperatorCallExpr', 'BinaryOperator', 'CompoundAssignOperator') and x.get('op') in ('/', '/=')):
                continue
            ops = fn.call_args(x) if x['k'] == 'CXXOperatorCallExpr' else [fn.nodes[c] for c in x['c']]
            r = fn.strip(ops[-1])
            if r is None or r['k'] != 'DeclRefExpr' or r.get('var') not in norms:
                continue
            seen.add((fn.cls, fn.name))
            n += 1
            nm, what = norms[r['var']]
            # tests  nm < threshold  (threshold: the class's near-zero field or a literal)
            tests = []
            for i in fn.walk():
                if i['k'] == 'IfStmt':
                    c = sym(fn, i['cond'], inline=False)
                    if c[0] in ('<', '<=') and c[1] == ('L', nm):
                        tests.append((i, True))          # true branch = small
                    elif c[0] in ('<', '<=') and c[2] == ('L', nm) and c[0] == '<':
                        tests.append((i, False))         # true branch = large
                    elif c[0] == '==' and ('L', nm) in c[1:] and ('lit', '0') in c[1:]:
                        tests.append((i, True))
            ok = False
            for i, small_is_then in tests:
                small = i['then'] if small_is_then else i.get('else', -1)
                large = i.get('else', -1) if small_is_then else i['then']
                if large is not None and large >= 0 and fn.within(x, large):
                    ok = True
                elif small is not None and small >= 0 and not fn.within(x, small):
                    # the small branch must not fall through to the division
                    kids = fn.kids(fn.nodes[small]) if fn.nodes[small]['k'] == 'CompoundStmt' else [fn.nodes[small]]
                    leaves = bool(kids) and (kids[-1]['k'] in ('ReturnStmt',) or any(y['k'] == 'CXXThrowExpr' for y in fn.walk(kids[-1])))
                    if leaves and paths.dominated_by(fn, fn.pos_of(x), lambda n_, i=i: fn.within(n_, i['cond'])):
                        ok = True
            # ... and, when the vector is the image of an UNNORMALISED user vector under the operator (init: A * v0), its squares
            # can overflow although its entries are finite (|A| |v0| > 1e154): the norm is inf and the division gives the zero
            # vector.  The norm must then be tested for finiteness (the failing branch rescales) or be an overflow-safe norm.
            is_param_norm = any(fn.locals[v_]['name'] in what.replace('m_op', '') for v_ in fn.params)
            if ok and fn.name == 'init' and not is_param_norm and 'perform_op' in ' '.join(fn.s(y)[:40] for y in fn.walk() if y['k'] == 'CXXMemberCallExpr' and y.get('callee') == 'perform_op' and y['l'] < x['l']):
                fin = [i_ for i_ in fn.walk() if i_['k'] == 'IfStmt' and 'isfinite' in show(sym(fn, i_['cond'], inline=False)) and nm in show(sym(fn, i_['cond'], inline=False))]
                safe = any(k_ in what for k_ in ('stableNorm', 'blueNorm', 'hypotNorm'))
                if not safe and not any(paths.dominated_by(fn, fn.pos_of(x), lambda n_, i_=i_: fn.within(n_, i_['cond'])) for i_ in fin):
                    ok = False
                    ctx.check(False, rule, '%s::%s/%s' % (fn.cls.replace('Spectra::', ''), fn.name, nm), fn.qname,
                              '`%s` divides by %s = %s, the norm of the image of the caller\'s unnormalised vector, with no test that it is finite: for |A| |v0| above 1e154 (1.8e19 in float) '
                              'the squares overflow while every entry is finite, the norm is inf, the first basis vector becomes zero and a Ritz value 0 with a zero vector is reported as converged' % (fn.s(x)[:30], nm, what))
                    continue
            ctx.check(ok, rule, '%s::%s/%s' % (fn.cls.replace('Spectra::', ''), fn.name, nm), fn.qname,
                      '`%s` is reached only when %s is not below the zero threshold' % (fn.s(x)[:30], nm) if ok else
                      '`%s` divides by %s = %s with no test of it: when that vector is exactly zero (the operator maps the start vector to zero: zero matrix, nilpotent or rank-deficient '
                      'matrix) this is 0/0, every later quantity is NaN, the operator is applied to NaN vectors and the run ends in an internal exception' % (fn.s(x)[:30], nm, what))
    if n < 1:
        raise AnalysisBroken('no division by a local norm found in the factorization classes (Arnoldi::init confirmed)')


def residual_checked_against_basis(ctx, rule='projected-residual-checked-against-the-basis'):
    """A residual formed by ONE projection, f = w - V (V^H w), is orthogonal to the basis only up to eps ||w||.  When w lies
    almost in span(V) -- a start vector that the operator maps to an eigenvector (rank-one and one-eigenvalue matrices with any
    start vector), an invariant subspace -- f is cancellation noise of that size and mostly NOT orthogonal to V; normalised into
    the next basis column it destroys V^H V = I (Gram matrix of rank 2 instead of 3, spurious Ritz values reported as
    converged with zero-norm vectors).  Every member of the factorization that forms such a residual must therefore look at
    V^H f afterwards: on every normal path from the projection to the exit of the member (or to the next projection) it
    computes the inner product of the basis with the residual (the orthogonality test of Daniel-Gragg-Kaufman-Stewart, or an
    unconditional second projection).  Sibling agreement: the Lanczos step loop tests in every step; the Arnoldi step loop must
    too (a shortcut `||f|| > c ||h||: skip the test` lets V'V drift from the identity over many restarts); init(), whose basis is
    one exactly normalised column, may decide by the norm ratio whether a correction is needed."""
    n = 0
    seen = set()
    for fn in ctx.F.concrete():
        if fn.cls not in FAC or not fn.cfg or fn.d.get('ctor') or (fn.cls, fn.name, len(fn.params)) in seen:
            continue
        projs = []
        for x in fn.walk():
            if x['k'] in ('CXXOperatorCallExpr', 'BinaryOperator') and x.get('op') == '=':
                t = sym(fn, x, inline=False)
                if t[1] in (('F', 'm_fac_f'), ('noalias', ('F', 'm_fac_f'))) and isinstance(t[2], tuple) and t[2][0] == '-' and len(t[2]) == 3 and \
                        isinstance(t[2][2], tuple) and t[2][2][0] == '*':
                    projs.append(x)
        if not projs:
            continue
        seen.add((fn.cls, fn.name, len(fn.params)))

        def looks_at_basis(n_):
            if n_['k'] != 'CXXMemberCallExpr' or n_.get('callee') not in ('inner_product', 'adjoint_product', 'trans_product'):
                return False
            a = [sym(fn, y, inline=False) for y in fn.call_args(n_)]
            return any(u == ('F', 'm_fac_f') for u in a)
        for pj in projs:
            n += 1
            pids = set(p_['id'] for p_ in projs)
            hit = paths.search(fn, [fn.pos_of(pj)], stop=looks_at_basis,
                               target=lambda n_: n_['k'] == 'ReturnStmt' or (n_['id'] in pids and n_['id'] != pj['id']),
                               exit_is_target=lambda b: True, normal_only=True)
            # the accepted sibling idiom: the path leaves only through the DGKS shortcut  `if (beta > c * norm(h)) continue;`
            dgks = []
            if hit is not None:
                # norm-ratio tests: a comparison of the norm of the residual (or its cache) with a multiple of the size of the
                # projection coefficients, guarding either a `continue` (skip the check) or the correction itself
                for i_ in fn.walk():
                    if i_['k'] != 'IfStmt':
                        continue
                    g = sym(fn, i_['cond'], inline=False)
                    if g[0] not in ('<', '<='):
                        continue
                    a_, b_ = show(g[1]), show(g[2])
                    res_side = lambda t_: 'm_beta' in t_ or ('norm' in t_ and 'm_fac_f' in t_)
                    coef_side = lambda t_: ('norm' in t_ or 'abs' in t_) and ('h' in t_.replace('m_fac_f', '') or 'm_fac_H' in t_)
                    if (res_side(a_) and coef_side(b_)) or (res_side(b_) and coef_side(a_)):
                        # in init the test must be the one that decides about the correction: its branch forms V^H f
                        # (the zero test `norm(f) < eps |H00|`, which only clears f, has the same shape and is not one)
                        if fn.name == 'init' and not any(looks_at_basis(y_) for y_ in fn.walk(i_['then'])):
                            continue
                        dgks.append(i_['cond'])
                # the shortcut is sound only while the basis is a single, exactly normalised column (init): with several columns a
                # small loss of orthogonality in V makes ||f|| / ||h|| misjudge the cancellation and passes the error on amplified;
                # in the step loop the test has to be made in every step (the Lanczos sibling does)
                if dgks and fn.name == 'init':
                    hit = paths.search(fn, [fn.pos_of(pj)], stop=lambda n_: looks_at_basis(n_) or any(fn.within(n_, d_) for d_ in dgks),
                                       target=lambda n_: n_['k'] == 'ReturnStmt' or (n_['id'] in pids and n_['id'] != pj['id']),
                                       exit_is_target=lambda b: True, normal_only=True)
            skipped = hit is not None and fn.name != 'init' and bool(dgks)
            if skipped:
                ctx.fail(rule, '%s::%s' % (fn.cls.replace('Spectra::', ''), fn.name), fn.qname,
                         'the orthogonality test of `%s` is skipped whenever ||f|| exceeds a multiple of the size of the projection coefficients: with several basis columns that ratio says nothing '
                         'once V has lost a little orthogonality, the error passes into the new column amplified, and over many restarts V^H V drifts away from the identity (spurious Ritz values '
                         'reported as converged with zero-norm vectors); the Lanczos sibling tests in every step' % fn.s(pj)[:40], path=hit)
                continue
            ctx.check(hit is None, rule, '%s::%s' % (fn.cls.replace('Spectra::', ''), fn.name), fn.qname,
                      'after `%s` every path computes V^H f (orthogonality test / second projection)%s' % (fn.s(pj)[:40], ' or passes the norm-ratio test' if fn.name == 'init' else '') if hit is None else
                      '`%s` is handed on without ever forming V^H f: when the operator maps the start vector (almost) onto a multiple of itself -- rank-one matrices, one distinct eigenvalue, '
                      'a computed eigenvector as start vector -- this residual is cancellation noise that is not orthogonal to the basis, and it becomes the next basis vector' % fn.s(pj)[:50],
                      path=hit)
    if n < 3:
        raise AnalysisBroken('only %d projected residuals found (init and the two factorize_from confirmed)' % n)


# degree (in the scale of the operator) of the named quantities of the factorization classes: 1 = scales like ||A||, 0 = dimensionless
SCALE_DEGREE = {
    ('F', 'm_beta'): 1, ('P', 'fnorm'): 1, ('F', 'm_fac_f'): 1, ('P', 'f'): 1, ('L', 'w'): 1, ('L', 'h'): 1, ('L', 'Vf'): 1, ('P', 'Vf'): 1,
    ('F', 'm_fac_H'): 1, ('F', 'm_eps'): 0, ('F', 'm_n'): 0, ('F', 'm_m'): 0, ('L', 'v'): 0, ('P', 'v0'): 0, ('L', 'v0'): 0, ('L', 'Viv'): 0,
    ('F', 'm_fac_V'): 0, ('L', 'Vs'): 0, ('P', 'V'): 0,
}


def _degree(fn, t, env):
    """degree of a normal form in the operator scale: 0, 1, .. ; 'zero-test' for the exact-zero threshold; None if unknown."""
    if not isinstance(t, tuple):
        return None
    if t in (('F', 'm_near_0'),):
        return 'zero-test'
    if t[0] == 'lit':
        return 0
    if t in SCALE_DEGREE:
        return SCALE_DEGREE[t]
    if t[0] == 'L' and t[1] in env:
        return env[t[1]]
    if t[0] == 'call' and t[1] in ('epsilon', 'min', 'max') and len(t) == 2:
        return 0
    if t[0] == 'call' and t[1] in ('max', 'min') and len(t) >= 4:
        ds = set(_degree(fn, u, env) for u in t[2:])
        return ds.pop() if len(ds) == 1 else None
    if t[0] in ('call',) and t[1] in ('sqrt',) and len(t) == 3:
        d = _degree(fn, t[2], env)
        return d // 2 if isinstance(d, int) and d % 2 == 0 else None
    if t[0] in ('call',) and t[1] in ('abs', 'fabs', 'real', 'imag') and len(t) == 3:
        return _degree(fn, t[2], env)
    if t[0] == 'norm' or (t[0] == 'call' and t[1] == 'norm'):
        return _degree(fn, t[-1], env)
    if t[0] in ('maxCoeff', 'cwiseAbs', 'head', 'tail', 'col', 'real', 'array', 'matrix', 'topLeftCorner', 'block', 'topRows', 'leftCols', 'diagonal', 'row', 'minCoeff'):
        return _degree(fn, t[1], env)
    if t[0] in ('()', '[]', 'coeff', 'coeffRef'):
        return _degree(fn, t[1], env)
    if t[0] == 'ctor' and len(t) >= 3:          # Map over a block of H
        for u in t[2:]:
            if isinstance(u, tuple) and 'm_fac_H' in show(u):
                return 1
        return None
    if t[0] == '&':
        return _degree(fn, t[1], env)
    if t[0] == '*':
        ds = [_degree(fn, u, env) for u in t[1:]]
        if any(d is None or d == 'zero-test' for d in ds):
            return None
        return sum(ds)
    if t[0] == '/' and len(t) == 3:
        a, b = _degree(fn, t[1], env), _degree(fn, t[2], env)
        if a is None or b is None or 'zero-test' in (a, b):
            return None
        return a - b
    if t[0] in ('+', '-') and len(t) >= 3:
        ds = set(_degree(fn, u, env) for u in t[1:])
        return ds.pop() if len(ds) == 1 else None
    if t[0] == '?:' and len(t) == 4:
        ds = set(_degree(fn, u, env) for u in t[2:]) - {0} if ('lit', '0') in t[2:] else set(_degree(fn, u, env) for u in t[2:])
        return ds.pop() if len(ds) == 1 else None
    if t[0] == 'u-':
        return _degree(fn, t[1], env)
    return None


def thresholds_homogeneous(ctx, rule='residual-thresholds-scale-with-the-operator'):
    """The properties hold "to rounding level relative to ||A||" for norms over many orders of magnitude.  Every decision the
    factorization takes by comparing the residual norm (or the orthogonality error, or a norm of A v) with a threshold must then
    be invariant under A -> c A: both sides of the comparison have the same degree in the operator scale.  A threshold such as
    eps * sqrt(n) (degree 0) against ||f|| (degree 1) declares a perfectly good residual of a small-norm matrix to be zero and
    replaces it by a random direction (the Krylov relation is then wrong by the discarded coupling); for a large-norm matrix it
    never fires.  Exempt: the exact-zero test against the class's near-zero constant (1 / it must not overflow).  Degrees are
    computed from a table of the named quantities (residual, its cached norm, H, projection coefficients: 1; eps, n, unit vectors,
    inner products of unit vectors: 0) through products, quotients, sums, abs and norms."""
    n = 0
    seen = set()
    for fn in ctx.F.concrete():
        if fn.cls not in FAC or not fn.cfg or fn.d.get('ctor') or (fn.cls, fn.name, len(fn.params)) in seen:
            continue
        seen.add((fn.cls, fn.name, len(fn.params)))
        env = {}
        for x in fn.walk():
            if x['k'] == 'DeclStmt':
                for d in x['decls']:
                    if 'init' in d and 'var' in d:
                        dg = _degree(fn, sym(fn, d['init'], inline=False), env)
                        if dg is not None and ('L', fn.locals[d['var']]['name']) not in SCALE_DEGREE:
                            env[fn.locals[d['var']]['name']] = dg
        for x in fn.walk():
            if x['k'] != 'BinaryOperator' or x.get('op') not in ('<', '<=', '>', '>='):
                continue
            a = sym(fn, x['c'][0], inline=False)
            b = sym(fn, x['c'][1], inline=False)
            da, db = _degree(fn, a, env), _degree(fn, b, env)
            if not any(d in (1, 2) for d in (da, db)):
                continue                 # not a comparison of a scaled quantity
            n += 1
            inst = '%s::%s' % (fn.cls.replace('Spectra::', ''), fn.name)
            if 'zero-test' in (da, db):
                ctx.ok(rule, inst, fn.qname, '`%s`: exact-zero test against the near-zero constant' % fn.s(x)[:50])
                continue
            if da is None or db is None:
                raise AnalysisBroken('%s: cannot determine the scale degree of `%s` (%s vs %s)' % (fn.qname, fn.s(x)[:60], da, db))
            ctx.check(da == db, rule, inst, fn.qname,
                      '`%s`: both sides scale like ||A||^%d' % (fn.s(x)[:50], da) if da == db else
                      '`%s` compares a quantity that scales like ||A||^%d with one that scales like ||A||^%d: for an operator of small norm the test fires on residuals that are far above '
                      'rounding level relative to ||A|| (a valid residual is discarded and the factorization continues with a random direction: A V = V H + f e\' is wrong by the lost coupling, '
                      'and pairs are reported as converged that are not), for one of large norm it never fires' % (fn.s(x)[:60], da, db))
    if n < 8:
        raise AnalysisBroken('only %d threshold comparisons found in the factorization classes (10 confirmed by hand)' % n)


def beta_tracks_residual(ctx, rule='residual-norm-tracks-residual'):
    """m_beta is the cached norm of the residual vector m_fac_f; every consumer (breakdown test, normalisation, sub-diagonal
    entry, the solver's convergence test) reads the cache.  Pairing rule over every member of the factorization: after each
    write of the residual (assignment, in-place update, setZero, swap) every normal path to the function's exit passes a write
    of the norm of the matching kind before leaving -- norm(residual) after a general write, norm(residual) or literal zero after
    setZero -- with no further residual write in between (a call that rewrites both through reference parameters counts as
    both writes)."""
    n = 0
    for fn in ctx.F.concrete():
        if fn.cls not in ('Spectra::Arnoldi', 'Spectra::Lanczos') or not fn.cfg or fn.d.get('ctor') or fn.d.get('dtor'):
            continue
        fe = ctx.E.of(fn)
        fw = []      # (node id, kind) kind: 'zero' | 'general'
        bw = {}      # node id -> kind 'zero' | 'norm' | 'both'
        for x in fn.walk():
            if x['k'] in ('BinaryOperator', 'CXXOperatorCallExpr') and x.get('op') == '=':
                t = sym(fn, x, inline=False)
                if t[1] == ('F', 'm_beta'):
                    v = t[2]
                    while isinstance(v, tuple) and v[0] in ('ctor', 'cast') and len(v) >= 2:
                        v = v[-1]
                    if v == ('lit', '0'):
                        bw[x['id']] = 'zero'
                    elif isinstance(v, tuple) and v[0] == 'norm' and ('F', 'm_fac_f') in v[1:]:
                        bw[x['id']] = 'norm'
                    else:
                        bw[x['id']] = 'other'
            if x['k'] == 'CXXMemberCallExpr' and x.get('callee') == 'expand_basis':
                a = [sym(fn, y, inline=False) for y in fn.call_args(x)]
                if ('F', 'm_fac_f') in a and ('F', 'm_beta') in a:
                    bw[x['id']] = 'both'
        for a in fe.accesses:
            if a.mode == 'w' and a.path == ('m_fac_f',):
                nd = fn.nodes[a.node]
                if nd['id'] in bw:
                    continue
                if nd['k'] == 'CXXMemberCallExpr' and nd.get('callee') == 'resize':
                    continue          # sizing only; the value is assigned afterwards
                kind = 'zero' if (nd['k'] == 'CXXMemberCallExpr' and nd.get('callee') == 'setZero') else 'general'
                fw.append((nd['id'], kind))
        if not fw:
            continue
        n += 1
        problems = []
        fids = set(i for i, _ in fw)
        for wid, kind in fw:
            ok_kinds = ('zero', 'norm', 'both') if kind == 'zero' else ('norm', 'both')
            good = set(i for i, k_ in bw.items() if k_ in ok_kinds)
            pos = fn.pos_of(fn.nodes[wid])
            if pos is None:
                continue
            hit = paths.search(fn, [pos], stop=lambda m: m['id'] in good or (m['id'] in fids and m['id'] != wid),
                               target=lambda m: m['k'] == 'ReturnStmt', exit_is_target=lambda b: True, normal_only=True)
            if hit is not None:
                problems.append('after `%s` a normal path leaves %s without re-computing the cached norm%s' %
                                (fn.s(wid)[:50], fn.name, ' (a value computed BEFORE the residual was zeroed is kept)' if kind == 'zero' else ''))
        inst = '%s::%s' % (fn.cls.replace('Spectra::', ''), fn.name)
        ctx.check(not problems, rule, inst, fn.qname,
                  '%d residual writes, each followed on every normal path by the matching update of the cached norm' % len(fw)
                  if not problems else '; '.join(sorted(set(problems))[:3]))
    if n < 6:
        raise AnalysisBroken('only %d factorization members with residual writes analysed' % n)


def resumed_at_own_dimension(ctx, base_tq, rule='factorization-resumed-at-its-own-dimension'):
    """factorize_from(k, m) extends a k-step factorization: the residual and its norm it starts from must be those of step k.
    Typestate over the public entry points of the solver base: init() leaves a 1-step factorization, compute() leaves an
    ncv-step one, and the property quantifies over every sequence of init() and compute().  A call factorize_from(k, ..) is
    therefore right only if k is tied to the current dimension on every history: (a) it follows compress_V in the same member
    with the compressed size (restart; the accounting is rule `restart-shift-accounting`), or (b) k is read from the
    factorization itself (subspace_dim()), possibly bounded below by 1.  A literal start index is right after init() only."""
    n = 0
    for fname in ('compute', 'restart'):
        for fn in ctx.F.insts(base_tq + '::' + fname):
            calls = [x for x in fn.walk() if x['k'] == 'CXXMemberCallExpr' and x.get('callee') == 'factorize_from']
            for c in calls:
                n += 1
                a = sym(fn, fn.call_args(c)[0], inline=False)
                if a[0] == 'L':
                    a = sym(fn, fn.call_args(c)[0])     # a local naming the start index: its (single) initialiser
                inst = '%s::%s' % (base_tq.replace('Spectra::', ''), fname)
                if paths.dominated_by(fn, fn.pos_of(c), lambda m: m['k'] == 'CXXMemberCallExpr' and m.get('callee') == 'compress_V'):
                    ctx.ok(rule, inst, fn.qname, 'factorize_from(%s, ..) follows compress_V in the same member' % show(a))
                    continue
                txt = show(a)
                if 'subspace_dim' in txt:
                    ctx.ok(rule, inst, fn.qname, 'start index %s is read from the factorization' % txt)
                    continue
                if a[0] == 'lit':
                    inits = paths.dominated_by(fn, fn.pos_of(c), lambda m: m['k'] == 'CXXMemberCallExpr' and m.get('callee') == 'init')
                    ctx.check(bool(inits), rule, inst, fn.qname,
                              'literal start index after an init() in the same member' if inits else
                              '`%s` assumes a %s-step factorization, which holds right after init() only: a %s() that follows another %s() on the same object '
                              '(every sequence of init() and compute() is in the quantifier of the property) restarts column %s from the residual of step ncv, '
                              'the Arnoldi / Lanczos relation is wrong in column %d and the pairs reported as converged are not eigenpairs' %
                              (fn.s(c['id'])[:60], txt, fname, fname, txt, int(txt) - 1))
                    continue
                raise AnalysisBroken('%s: start index %s of factorize_from not classified' % (fn.qname, txt))
    if n < 4:
        raise AnalysisBroken('%s: only %d factorize_from call sites analysed' % (base_tq, n))


def noise_test_reference_global(ctx, rule='noise-test-relative-to-the-whole-operator'):
    """Lanczos::factorize_from declares the residual "rounding noise" (sets it to zero, restarts with a fresh direction) when its
    norm is below eps sqrt(n) times a reference of the size of A.  With the three-term recurrence the only quantities of that size
    within a step are its two coefficients H(i, i-1) and H(i, i) -- and on the null space of a low-rank matrix these ARE rounding
    noise (A v is noise for v orthogonal to the range): measured against them the noise residual looks healthy, the process
    continues on noise of noise, its quantities shrink by orders of magnitude per step until their squares underflow (float:
    1e-22 squared), the basis collapses and H fills with inf / NaN (`TridiagEigen: eigen decomposition failed`).  The reference
    must therefore not be confined to the current step: a running maximum kept across the step loop, a reduction over a block of
    H that spans the earlier columns, or a stored scale."""
    n = 0
    seen = set()
    for fn in ctx.F.concrete():
        if fn.cls != 'Spectra::Lanczos' or fn.name != 'factorize_from' or not fn.cfg or fn.mangled in seen:
            continue
        seen.add(fn.mangled)
        loops = [lp for lp in fn.walk() if lp['k'] == 'ForStmt' and any(x['k'] == 'CXXMemberCallExpr' and x.get('callee') == 'perform_op' for x in fn.walk(lp['body']))]
        if len(loops) != 1:
            raise AnalysisBroken('%s: step loop not identified' % fn.qname)
        lp = loops[0]
        idx = loop_var(fn, lp)
        tests = []
        for i in fn.walk(lp['body']):
            if i['k'] != 'IfStmt':
                continue
            zero = [x for x in fn.walk(i['then']) if x['k'] == 'CXXMemberCallExpr' and x.get('callee') == 'setZero' and 'm_fac_f' in fn.s(x)]
            c = sym(fn, i['cond'], inline=False)
            if zero and c[0] in ('<', '<=') and c[1] == ('F', 'm_beta'):
                tests.append((i, c))
        if not tests:
            raise AnalysisBroken('%s: no noise test (residual set to zero under a comparison of its norm) in the step loop' % fn.qname)
        for i, c in tests:
            n += 1
            ref = c[2]
            leaves = []

            def walk(t):
                if isinstance(t, tuple):
                    if t[0] in ('L', 'F', 'P'):
                        leaves.append(t)
                    elif t[0] in ('()', '[]', 'coeff') and t[1] == ('F', 'm_fac_H'):
                        leaves.append(t)
                    else:
                        for u in t[1:]:
                            walk(u)
            walk(ref)
            global_ref, local_ref = [], []
            for lf in leaves:
                if lf[0] == 'L':
                    nm = lf[1]
                    decl_outside = [x for x in fn.walk() if x['k'] == 'DeclStmt' and not fn.within(x, lp['body']) and any(fn.locals[d['var']]['name'] == nm for d in x['decls'] if 'var' in d)]
                    asg = [x for x in fn.walk(lp['body']) if x['k'] == 'BinaryOperator' and x.get('op') == '=' and sym(fn, x['c'][0], inline=False) == lf]
                    running = bool(decl_outside) and bool(asg) and all(
                        (lambda r: r[0] == 'call' and r[1] == 'max' and lf in r[2:])(sym(fn, a['c'][1], inline=False)) for a in asg)
                    if running:
                        global_ref.append('%s (running maximum over the steps)' % nm)
                    elif decl_outside and not asg:
                        dg = None
                        inits = [d['init'] for x in decl_outside for d in x['decls'] if 'init' in d and fn.locals[d['var']]['name'] == nm]
                        t0 = show(sym(fn, inits[0], inline=False)) if inits else ''
                        if 'm_fac_H' in t0 and any(k in t0 for k in ('maxCoeff', 'norm')):
                            global_ref.append('%s = %s' % (nm, t0[:50]))
                elif lf[0] == 'F' and lf[1] not in ('m_beta', 'm_eps', 'm_near_0', 'm_n', 'm_m', 'm_k', 'm_fac_H', 'm_fac_f', 'm_fac_V'):
                    global_ref.append('stored scale %s' % lf[1])
                elif lf[0] in ('()', '[]', 'coeff'):
                    if idx is not None and any(('L', idx) in atoms_of(u) for u in lf[2:]):
                        local_ref.append(show(lf))
            def reductions(t):
                if isinstance(t, tuple):
                    if t[0] in ('maxCoeff', 'norm', 'lpNorm', 'sum') or (t[0] == 'call' and t[1] in ('maxCoeff', 'norm')):
                        yield t
                    for u in t[1:]:
                        for r_ in reductions(u):
                            yield r_
            for r_ in reductions(ref):
                txt = show(r_)
                if 'm_fac_H' in txt and any(k in txt for k in ('topLeftCorner(', 'block(', 'topRows(', 'leftCols(')):
                    global_ref.append('a reduction over a block of H: %s' % txt[:60])
            ok = bool(global_ref)
            ctx.check(ok, rule, 'Lanczos::factorize_from', fn.qname,
                      '`%s`: the reference is %s' % (fn.s(i['cond'])[:50], '; '.join(global_ref)) if ok else
                      '`%s` measures the residual only against %s, the coefficients of the current step: on the null space of a low-rank matrix they are rounding noise themselves, '
                      'the noise residual passes, the process continues on noise until its squares underflow and H fills with inf / NaN' % (fn.s(i['cond'])[:70], ', '.join(local_ref) or 'quantities of the current step'))
    if n < 1:
        raise AnalysisBroken('no noise test analysed in Lanczos::factorize_from')


def loop_var(fn, lp):
    for x in (fn.walk(lp['init']) if lp.get('init', -1) not in (None, -1) else []):
        if x['k'] == 'DeclStmt':
            for d in x['decls']:
                if 'var' in d:
                    return fn.locals[d['var']]['name']
    return None


def atoms_of(t):
    out = set()
    if isinstance(t, tuple):
        if t[0] in ('L', 'F', 'P'):
            out.add(t)
        else:
            for u in t[1:]:
                out |= atoms_of(u)
    return out


def interrupted_extension_advertises_nothing(ctx, rule='interrupted-extension-advertises-no-dimension'):
    """factorize_from overwrites the residual, the cached norm, columns of V and entries of H step by step, and assigns the
    advertised dimension once, at the very end.  If the user's operator throws in the middle (any application of A, and in the
    generalized modes any inner product / norm, which apply B), the object keeps advertising the OLD dimension with a residual
    of a later step: A V_k = V_k H_k + f e_k' is wrong by O(||A||), and a following compute() without init() continues from it
    and reports Successful with wrong pairs (replayed for 32 of 38 fault positions).  The member must therefore withdraw the
    advertised dimension (m_k = 0: "not initialised", which the entry test of the next call rejects) before its first call that
    can reach a user operator, and advertise the new one only after the last."""
    n = 0
    ncv = 0
    seen = set()
    for fn in ctx.F.concrete():
        if fn.cls not in ('Spectra::Arnoldi', 'Spectra::Lanczos') or fn.name not in ('factorize_from', 'compress_V') or not fn.cfg or fn.mangled in seen:
            continue
        seen.add(fn.mangled)
        risky = [x for x in fn.walk() if x['k'] == 'CXXMemberCallExpr' and x.get('callee') in ('perform_op', 'inner_product', 'adjoint_product', 'trans_product', 'norm', 'expand_basis')
                 and (x.get('callee') == 'expand_basis' or 'm_op' in fn.s(x)[:12])]
        if not risky:
            if fn.name == 'compress_V':
                continue            # a restart update that reaches no user operator cannot be interrupted by one
            raise AnalysisBroken('%s: no operator application found' % fn.qname)
        if fn.name == 'compress_V':
            # [session 4, F51] the restart update: V, f (and H, by compress_H) are already those of the compressed factorization
            # when the norm of the new residual -- an application of B -- is taken; only the writes that precede the risky
            # call matter: every risky call must run with the dimension withdrawn, and it is advertised again afterwards
            ncv += 1
        kw = [x for x in fn.walk() if x['k'] == 'BinaryOperator' and x.get('op') == '=' and sym(fn, x['c'][0], inline=False) == ('F', 'm_k')]
        zero = [x for x in kw if sym(fn, x['c'][1], inline=False) in (('lit', '0'), ('ctor', 'long', ('lit', '0')))]
        final = [x for x in kw if x not in zero]
        who = '%s::%s' % (fn.cls.replace('Spectra::', ''), fn.name)
        zid = set(x['id'] for x in zero)
        bad = [r for r in risky if fn.pos_of(r) and not paths.dominated_by(fn, fn.pos_of(r), lambda n_: n_['id'] in zid)]
        # the new dimension is advertised only after the last risky call: no risky call reachable from a non-zero write of m_k
        late = []
        for w in final:
            rid = set(r['id'] for r in risky)
            if paths.search(fn, [fn.pos_of(w)], stop=lambda n_: False, target=lambda n_: n_['id'] in rid) is not None:
                late.append(w)
        n += 1 if fn.name == 'factorize_from' else 0
        ok = bool(zero) and not bad and not late and bool(final)
        ctx.check(ok, rule, who, fn.qname,
                  'the advertised dimension is withdrawn before the first of %d call(s) that can reach a user operator and assigned again after the last' % len(risky) if ok else
                  ('%d call(s) that can reach a user operator (first: `%s`) run while the object still advertises its old dimension: an exception there leaves k with the residual of a later step, '
                   'and a following compute() builds on it and reports Successful with wrong pairs' % (len(bad) if zero else len(risky), fn.s((bad or risky)[0])[:40])) if not late else
                  'the new dimension is advertised before the last call that can reach a user operator')
    if n < 2:
        raise AnalysisBroken('only %d factorize_from members analysed' % n)
    if ncv < 1:
        raise AnalysisBroken('no compress_V member with a call that reaches the B operator analysed')


def projection_coefficient_orientation(ctx, rule='inner-product-conjugates-the-basis-vector', min_instances=4):
    """The adaptor's form <x, y> = x^H B y is conjugate-linear in its FIRST argument.  The component of a vector f along a
    (B-orthonormal) basis vector v is <v, f>; the entries of the projected matrix are H(j, i) = <v_j, A v_i>.  With the arguments
    exchanged the value is the complex conjugate: invisible for real scalars (all the tests that reach these lines), while for
    complex Hermitian problems a projection `f -= <f, v> v` doubles the imaginary part of the component instead of removing it --
    the new basis vector is not orthogonal to V and V'BV = I, A V = V H + f e' are lost.  Every call of inner_product in the
    factorization classes whose two arguments are different objects must therefore have a view of the basis (the basis field,
    a Map / column local that aliases it, or the basis parameter of expand_basis) as its first argument and something that is
    not the basis, or an earlier column of it, as its second."""
    n = 0
    seen = set()
    for fn in ctx.F.concrete():
        if (fn.cls or '') not in ('Spectra::Arnoldi', 'Spectra::Lanczos') or fn.mangled in seen or not fn.cfg:
            continue
        seen.add(fn.mangled)
        fe = ctx.E.of(fn)

        def is_basis(node):
            r = fn.root_of(node)
            if r == ('field', 'm_fac_V'):
                return True
            if r is not None and r[0] == 'local':
                if fe.alias.get(r[1], ())[:1] == ('m_fac_V',):
                    return True
                loc = fn.locals[r[1]]
                # the basis handed to expand_basis: a matrix-typed parameter (Map<const Matrix>)
                if r[1] in fn.params and 'Eigen::Map<const Eigen::Matrix' in loc.get('type', '') and ', -1, -1' in loc.get('type', '').replace('Eigen::Dynamic', '-1'):
                    return True
            return False
        for x in fn.walk():
            if not (x['k'] == 'CXXMemberCallExpr' and x.get('callee') == 'inner_product'):
                continue
            a = fn.call_args(x)
            if len(a) != 2:
                continue
            ta, tb = sym(fn, a[0], inline=False), sym(fn, a[1], inline=False)
            if ta == tb:
                continue            # <x, x>: real, orientation-free
            # Lanczos (Hermitian operator): the diagonal entry <v, A v> is real up to rounding, its orientation changes nothing
            # beyond the sign of an imaginary rounding residue -- not demanded
            par = [p_ for p_ in fn.ancestors(x) if p_['k'] in ('CXXOperatorCallExpr', 'BinaryOperator') and p_.get('op') == '=']
            if fn.cls == 'Spectra::Lanczos' and par:
                pa = fn.call_args(par[0]) if par[0]['k'] == 'CXXOperatorCallExpr' else [fn.nodes[c] for c in par[0]['c']]
                tl = sym(fn, pa[0], inline=False)
                if tl[0] == '()' and tl[1] == ('F', 'm_fac_H') and len(tl) == 4 and tl[2] == tl[3] and {is_basis(a[0]), is_basis(a[1])} == {True, False}:
                    continue
            n += 1
            first, second = is_basis(a[0]), is_basis(a[1])
            ok = first
            inst = '%s::%s' % (fn.cls.replace('Spectra::', ''), fn.name)
            ctx.check(ok, rule, inst, fn.qname,
                      '`%s`: the conjugated (first) argument is a view of the basis' % fn.s(x['id'])[:60] if ok else
                      '`%s` at %s: the conjugated (first) argument `%s` is not a view of the basis%s -- the value is the complex conjugate of the component along the basis vector; '
                      'exact for real scalars, wrong for complex Hermitian problems (the projection doubles the imaginary part instead of removing it)' %
                      (fn.s(x['id'])[:60], fn.loc(x), fn.s(a[0])[:30], ' while the second one is' if second else ''))
    if n < min_instances:
        raise AnalysisBroken('only %d oriented inner products found in the factorization classes (expected >= %d)' % (n, min_instances))
