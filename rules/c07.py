"""C07 -- Krylov factorization invariant: structural necessary conditions."""
from . import factorization as fz

EXPLANATION = (
    'Who-may-call, data-flow and pairing rules over the CFGs of every instantiated Arnoldi / Lanczos member, the inner-product '
    'adaptor and the restart loops of both solver bases. Decides: (D1) inside the factorization no Eigen reduction (norm, dot, '
    'adjoint product, normalize ...) is applied directly: every inner product and norm goes through the adaptor, and the '
    'adaptor with a B operator applies B exactly once to the right argument before reducing (identity specialisation: plain '
    'reductions) -- necessary for V^H B V = I and V^H B f = 0 in the generalized modes; (D2) the sub-diagonal entry stored for '
    'step i is 0 exactly on the paths that generated a fresh direction in that step (breakdown) and the current residual norm '
    'otherwise, Lanczos mirrors it symmetrically; (D3) in the restart loops each applied shift lowers the advertised dimension '
    'by exactly as much as the loop index advances (single shift 1, double shift 2), the decomposition applied is the one '
    'computed in the same branch, and compress_V followed by factorize_from(k, ncv) runs on every path after the loop -- so k '
    'equals the advertised dimension; (D4) every division by the residual norm is reached only after the test against the tiny '
    'threshold or after a fresh direction whose acceptance test (strict, in the sign domain) implies a positive norm; (D5) the cached residual norm tracks the residual: after '
    'every write of the residual vector every normal path to the exit passes the matching update of the norm; (D6) loop-carried work '
    'buffers are refreshed on every path of an iteration before they are read, and no noalias() destination is a factor of its own product. Does NOT '
    'decide A V = V H + f e\', V^H B V = I, V^H B f = 0 to rounding level: those are floating-point magnitudes.')
ASSUMPTIONS = ['the B operator handed to the adaptor is the positive-definite matrix of the pencil (C03 mode table)',
               'expand_basis finds an acceptable direction within its 5 attempts (documented as almost sure); the fall-through exit is not guarded']


def run(ctx):
    from . import stale
    stale.loop_buffers(ctx, scope=lambda fn: fn.cls in ('Spectra::Arnoldi', 'Spectra::Lanczos'), min_instances=4)
    from . import hygiene
    hygiene.noalias_destination_not_in_product(ctx, scope=lambda fn: fn.cls in ('Spectra::Arnoldi', 'Spectra::Lanczos', 'Spectra::ArnoldiOp'), min_instances=10)
    fz.no_direct_reduction(ctx)
    fz.adaptor_agreement(ctx)
    fz.subdiagonal_on_breakdown(ctx)
    fz.shift_accounting(ctx)
    fz.accept_implies_positive(ctx)
    fz.beta_divisions_guarded(ctx)
    fz.beta_tracks_residual(ctx)
    fz.residual_checked_against_basis(ctx)
    fz.thresholds_homogeneous(ctx)
    fz.noise_test_reference_global(ctx)
    fz.interrupted_extension_advertises_nothing(ctx)
    fz.projection_coefficient_orientation(ctx)
