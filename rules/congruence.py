"""Congruence abstract interpretation of a loop-free integer function body: every value is tracked as an exact integer
linear form over *atoms* next to its interval (rules/interval.py supplies the intervals, the statement walk and the path
splitting at if statements).  Atoms are the function's parameters and the two halves of every bit-field split the body
performs: for  x >> k  and  x & (2^k - 1)  the atoms hi_k(x), lo_k(x) are introduced together with the exact *split equation*

        x  =  2^k * hi_k(x)  +  lo_k(x)                                   (an identity of non-negative integers)

A mask that provably removes one carry bit (2^k <= x < 2^(k+1), known from the interval) is the exact form  x - 2^k .
At a return the question  "result = c * parameter  (mod p)"  is decided by linear algebra over the field GF(p): the
difference  result - c * parameter  must lie in the span of the split equations modulo p (Gaussian elimination).  Nothing is
executed on concrete states and no solver is involved; the rule is a symbolic identity of the body's own arithmetic, valid
for every argument in the analysed interval.

Used by C19 for the generator step: Schrage / Carta split multiplication modulo the Mersenne prime 2^31 - 1.
"""
from .facts import AnalysisBroken
from . import interval
from .interval import Unsupported

ONE = '1'


def f_const(c):
    return {ONE: c} if c else {}


def f_add(a, b, sb=1):
    r = dict(a)
    for k, v in b.items():
        r[k] = r.get(k, 0) + sb * v
        if r[k] == 0:
            del r[k]
    return r


def f_scale(a, c):
    return {k: v * c for k, v in a.items()} if c else {}


def f_is_const(a):
    return all(k == ONE for k in a)


def f_key(a):
    return tuple(sorted((str(k), v) for k, v in a.items()))


class State:
    def __init__(self):
        self.equations = []   # list of linear forms that are identically zero
        self.fresh = 0
        self.atoms = {}       # atom -> description

    def split(self, form, k):
        key = f_key(form)
        hi, lo = ('hi', k, key), ('lo', k, key)
        if hi not in self.atoms:
            self.atoms[hi] = 'bits >= %d of (%s)' % (k, show(form))
            self.atoms[lo] = 'bits < %d of (%s)' % (k, show(form))
            eq = f_add(form, {hi: 2 ** k, lo: 1}, -1)
            self.equations.append(eq)
        return hi, lo

    def unknown(self, why):
        self.fresh += 1
        a = ('unknown', self.fresh, why)
        self.atoms[a] = why
        return {a: 1}


def show(form):
    def nm(k):
        if k == ONE:
            return ''
        if isinstance(k, tuple) and k[0] in ('hi', 'lo'):
            return '%s%d(..)' % (k[0], k[1])
        if isinstance(k, tuple) and k[0] == 'param':
            return k[1]
        return str(k[0]) if isinstance(k, tuple) else str(k)
    parts = []
    for k, v in sorted(form.items(), key=lambda kv: str(kv[0])):
        parts.append(('%d' % v) if k == ONE else ('%d*%s' % (v, nm(k)) if v != 1 else nm(k)))
    return ' + '.join(parts) if parts else '0'


def ev(fn, n, env, ivenv, st):
    """-> linear form of expression n.  env: var -> form; ivenv: var -> interval (for the exact mask / shift transfers)."""
    n = fn.strip(n)
    k = n['k']
    if k == 'IntegerLiteral':
        return f_const(int(n['val']))
    if k == 'DeclRefExpr':
        if 'var' in n and n['var'] in env:
            return env[n['var']]
        if 'cval' in n:
            return f_const(int(n['cval']))
        raise Unsupported('variable %s read before assignment at %s' % (n.get('name'), fn.loc(n)))
    if 'cval' in n and k != 'BinaryOperator':
        return f_const(int(n['cval']))
    if k == 'BinaryOperator':
        op = n['op']
        na, nb = fn.nodes[n['c'][0]], fn.nodes[n['c'][1]]
        a, b = ev(fn, na, env, ivenv, st), ev(fn, nb, env, ivenv, st)
        ia, ib = interval.ev(fn, na, ivenv), interval.ev(fn, nb, ivenv)
        interval.ev(fn, n, ivenv)      # raises when the operation could overflow 64 bits: the integer forms would not be exact
        if op == '+':
            return f_add(a, b)
        if op == '-':
            return f_add(a, b, -1)
        if op == '*':
            if f_is_const(a):
                return f_scale(b, a.get(ONE, 0))
            if f_is_const(b):
                return f_scale(a, b.get(ONE, 0))
            return st.unknown('product of two non-constant values at %s' % fn.loc(n))
        if op == '<<':
            if ib[0] != ib[1]:
                raise Unsupported('shift by a non-constant at %s' % fn.loc(n))
            return f_scale(a, 2 ** ib[0])
        if op == '>>':
            if ib[0] != ib[1] or ia[0] < 0:
                raise Unsupported('shift at %s' % fn.loc(n))
            if ia[1] < 2 ** ib[0]:
                return {}
            hi, lo = st.split(a, ib[0])
            return {hi: 1}
        if op == '&':
            for x, ix, im in ((a, ia, ib), (b, ib, ia)):
                if im[0] == im[1] and im[0] >= 0 and (im[0] & (im[0] + 1)) == 0 and ix[0] >= 0:
                    mask = im[0]
                    kbit = mask + 1
                    if ix[1] <= mask:
                        return x
                    if ix[0] >= kbit and ix[1] < 2 * kbit:
                        return f_add(x, f_const(kbit), -1)
                    hi, lo = st.split(x, kbit.bit_length() - 1)
                    return {lo: 1}
            raise Unsupported('bitwise and with a non-mask at %s' % fn.loc(n))
        if op == '%':
            if ib[0] == ib[1] and ib[0] > 0 and ia[0] >= 0:
                if ia[1] < ib[0]:
                    return a
                # x % c = x - c * (x / c): a fresh quotient atom, exact
                q = st.unknown('quotient of (%s) by %d at %s' % (show(a), ib[0], fn.loc(n)))
                return f_add(a, f_scale(q, ib[0]), -1)
            raise Unsupported('modulo at %s' % fn.loc(n))
        return st.unknown('operator %s at %s' % (op, fn.loc(n)))
    if k == 'ConditionalOperator':
        raise Unsupported('conditional expression at %s (congruence interpretation handles if statements only)' % fn.loc(n))
    if k == 'UnaryOperator' and n.get('op') == '-':
        return f_scale(ev(fn, fn.nodes[n['c'][0]], env, ivenv, st), -1)
    raise Unsupported('expression kind %s at %s' % (k, fn.loc(n)))


def run_stmt(fn, n, paths, rets, st):
    """paths: list of (form env, interval env); mirrors interval.run_stmt."""
    k = n['k']
    if k == 'CompoundStmt':
        for c in fn.kids(n):
            paths = run_stmt(fn, c, paths, rets, st)
        return paths
    if k == 'DeclStmt':
        out = []
        for env, iv in paths:
            env, iv = dict(env), dict(iv)
            for d in n.get('decls', []):
                if 'var' in d and 'init' in d:
                    env[d['var']] = ev(fn, fn.nodes[d['init']], env, iv, st)
                    iv[d['var']] = interval.ev(fn, fn.nodes[d['init']], iv)
            out.append((env, iv))
        return out
    if k in ('BinaryOperator', 'CompoundAssignOperator') and n.get('op', '') in ('=', '+=', '-=', '*=', '&=', '>>=', '<<=', '%='):
        out = []
        for env, iv in paths:
            env, iv = dict(env), dict(iv)
            v = interval._lhs_var(fn, fn.nodes[n['c'][0]])
            if n['op'] == '=':
                env[v] = ev(fn, fn.nodes[n['c'][1]], env, iv, st)
            else:
                fake = dict(n)
                fake['k'] = 'BinaryOperator'
                fake['op'] = n['op'][:-1]
                env[v] = ev(fn, fake, env, iv, st)
            iv = interval.run_stmt(fn, n, [iv], [])[0]
            out.append((env, iv))
        return out
    if k == 'UnaryOperator' and n.get('op') in ('++', '--'):
        out = []
        for env, iv in paths:
            env = dict(env)
            v = interval._lhs_var(fn, fn.nodes[n['c'][0]])
            env[v] = f_add(env[v], f_const(1), 1 if n['op'] == '++' else -1)
            iv = interval.run_stmt(fn, n, [iv], [])[0]
            out.append((env, iv))
        return out
    if k == 'IfStmt':
        out = []
        for env, iv in paths:
            it = interval.refine(fn, fn.nodes[n['cond']], dict(iv), True)
            if_ = interval.refine(fn, fn.nodes[n['cond']], dict(iv), False)
            if it is not None:
                out += run_stmt(fn, fn.nodes[n['then']], [(env, it)], rets, st)
            if if_ is not None:
                if n.get('else', -1) >= 0:
                    out += run_stmt(fn, fn.nodes[n['else']], [(env, if_)], rets, st)
                else:
                    out.append((env, if_))
        return out
    if k == 'ReturnStmt':
        for env, iv in paths:
            rets.append((ev(fn, fn.nodes[n['value']], env, iv, st), interval.ev(fn, fn.nodes[n['value']], iv), fn.loc(n)))
        return []
    if k == 'NullStmt':
        return paths
    if k in ('ExprWithCleanups', 'ImplicitCastExpr', 'ParenExpr'):
        return run_stmt(fn, fn.nodes[n['c'][0]], paths, rets, st)
    raise Unsupported('statement kind %s at %s' % (k, fn.loc(n)))


def in_span_mod(target, equations, p):
    """Is `target` (a linear form) in the span of `equations` over GF(p)?  -> (bool, residual form)."""
    cols = sorted(set(k for e in equations + [target] for k in e), key=str)
    idx = {c: i for i, c in enumerate(cols)}

    def vec(e):
        v = [0] * len(cols)
        for k, c in e.items():
            v[idx[k]] = c % p
        return v
    rows = [vec(e) for e in equations]
    t = vec(target)
    # the column of the constant 1 is ordinary: p * 1 = 0 in GF(p) is what makes a fold  x - p  invisible
    pivots = []
    r = 0
    for c in range(len(cols)):
        pr = None
        for i in range(r, len(rows)):
            if rows[i][c] % p:
                pr = i
                break
        if pr is None:
            continue
        rows[r], rows[pr] = rows[pr], rows[r]
        inv = pow(rows[r][c], p - 2, p)
        rows[r] = [(x * inv) % p for x in rows[r]]
        for i in range(len(rows)):
            if i != r and rows[i][c]:
                f = rows[i][c]
                rows[i] = [(x - f * y) % p for x, y in zip(rows[i], rows[r])]
        pivots.append((r, c))
        r += 1
    for (ri, c) in pivots:
        if t[c]:
            f = t[c]
            t = [(x - f * y) % p for x, y in zip(t, rows[ri])]
    resid = {cols[i]: t[i] for i in range(len(cols)) if t[i]}
    return (not resid), resid


def is_prime(p):
    if p < 2:
        return False
    i = 2
    while i * i <= p:
        if p % i == 0:
            return False
        i += 1
    return True


def step_congruent(fn, arg_range, mult, p):
    """Every return of the loop-free one-parameter function fn yields a value = mult * argument (mod p), for every argument
    in arg_range.  -> list of (ok, where, detail, interval of the result on that path)."""
    for x in fn.walk():
        if x['k'] in ('ForStmt', 'WhileStmt', 'DoStmt', 'GotoStmt', 'SwitchStmt', 'CallExpr', 'CXXMemberCallExpr'):
            raise Unsupported('%s contains %s: the congruence interpretation supports loop-free, call-free bodies only' % (fn.qname, x['k']))
    if len(fn.params) != 1:
        raise Unsupported('%s: one parameter expected' % fn.qname)
    st = State()
    P = ('param', fn.locals[fn.params[0]]['name'])
    st.atoms[P] = 'the argument'
    rets = []
    run_stmt(fn, fn.nodes[fn.body], [({fn.params[0]: {P: 1}}, {fn.params[0]: arg_range})], rets, st)
    if not rets:
        raise Unsupported('%s: no return reached' % fn.qname)
    out = []
    for form, iv, where in rets:
        diff = f_add(form, {P: mult}, -1)
        ok, resid = in_span_mod(diff, st.equations, p)
        out.append((ok, where, 'result = %s' % show(form) if ok else
                    'result = %s; result - %d*argument leaves %s modulo %d after elimination by the %d split equations' %
                    (show(form), mult, show(resid), p, len(st.equations)), iv))
    return out, len(st.equations)
