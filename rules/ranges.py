"""Forward zone analysis of one function over its CFG (join at merges, widening at loop heads, one narrowing pass),
and the index-range obligations checked on the result (C13-D1, C02-D6)."""
from .facts import AnalysisBroken
from . import zone
from .zone import DBM, INF
from .paths import BRANCH_TERMS


def analyse(fn, entry):
    """Returns {(block id, element index): DBM holding BEFORE that element} and {block id: DBM at block exit}."""
    blocks = fn.cfg['blocks']
    ids = [b['id'] for b in blocks]
    entry_id = fn.cfg['entry']
    preds = fn.preds()
    # reverse post-order
    order = []
    seen = set()

    def dfs(b):
        stack = [(b, iter(fn.succs(b)))]
        seen.add(b)
        while stack:
            n, it = stack[-1]
            adv = False
            for s in it:
                if s not in seen:
                    seen.add(s)
                    stack.append((s, iter(fn.succs(s))))
                    adv = True
                    break
            if not adv:
                order.append(n)
                stack.pop()
    dfs(entry_id)
    order.reverse()
    pos = {b: i for i, b in enumerate(order)}
    loop_heads = set()
    for b in order:
        for s in fn.succs(b):
            if s in pos and pos[s] <= pos[b]:
                loop_heads.add(s)
    OUT = {}
    IN = {}
    visits = {b: 0 for b in order}

    def edge(p, b):
        """zone flowing along edge p -> b"""
        o = OUT.get(p)
        if o is None:
            return None
        blk = fn.blocks[p]
        cond = blk.get('termcond', -1)
        d = o.copy()
        if blk.get('termk') in BRANCH_TERMS and cond is not None and cond >= 0 and len(blk['succs']) == 2:
            ss = blk['succs']
            idxs = [i for i, s in enumerate(ss) if s == b]
            if len(idxs) == 1:
                zone.assume(fn, d, fn.nodes[cond], idxs[0] == 0)
        if d.is_bot():
            return None
        return d

    def transfer(b, d, record=None):
        d = d.copy()
        for i, e in enumerate(fn.blocks[b]['elems']):
            if record is not None:
                record[(b, i)] = d.copy()
            if isinstance(e, int):
                zone.step(fn, d, fn.nodes[e])
            elif isinstance(e, dict) and 'decl' in e:
                d.forget(('v', e['decl']))
        return d

    def compute_in(b):
        if b == entry_id:
            return entry.copy()
        acc = None
        for p in preds[b]:
            d = edge(p, b)
            if d is None:
                continue
            acc = d if acc is None else acc.join(d)
        return acc

    changed = True
    rounds = 0
    while changed and rounds < 60:
        changed = False
        rounds += 1
        for b in order:
            new_in = compute_in(b)
            if new_in is None:
                continue
            old = IN.get(b)
            if old is not None and b in loop_heads:
                visits[b] += 1
                if visits[b] > 2:
                    new_in = old.widen(old.join(new_in))
                else:
                    new_in = old.join(new_in)
            if old is None or not new_in.leq(old) or not old.leq(new_in):
                IN[b] = new_in
                OUT[b] = transfer(b, new_in)
                changed = True
    if rounds >= 60:
        raise AnalysisBroken('zone analysis of %s did not stabilise' % fn.qname)
    # narrowing: two descending passes without widening
    for _ in range(2):
        for b in order:
            ni = compute_in(b)
            if ni is None:
                continue
            IN[b] = ni
            OUT[b] = transfer(b, ni)
    rec = {}
    for b in order:
        if b in IN:
            transfer(b, IN[b], rec)
    return rec, OUT


def lin_or_none(fn, n):
    return zone.linear(fn, n)


def prove_le(d, a, b, slack=0):
    """a, b linear forms (var, c): does a <= b + slack hold in zone d?"""
    (x, cx), (y, cy) = a, b
    return d.entails(x, y, cy - cx + slack)
