"""Forward zone analysis of one function over its CFG (join at merges, widening at loop heads, one narrowing pass),
and the index-range obligations checked on the result (C13-D1, C02-D6)."""
from .facts import AnalysisBroken
from .zone import zone_is_ptr
from . import zone
from .zone import DBM, INF
from .paths import BRANCH_TERMS


def _cjoin(a, b):
    """join of two congruence maps {var: (m, r)} (value = r mod m; m == 0: exactly r).  Missing = unknown."""
    from math import gcd
    out = {}
    for v in set(a) & set(b):
        (m1, r1), (m2, r2) = a[v], b[v]
        m = gcd(gcd(m1, m2), abs(r1 - r2))
        if m == 1:
            continue
        out[v] = (m, r1 % m if m else r1)
    return out


class State:
    """Zone plus a set of general linear facts  L <= 0  (each a frozenset of (var, coef) items; key 1 = constant) gathered
    from branch conditions with const locals inlined, plus congruences var = r (mod m) for the strided loops of the vectorised
    kernel.  The facts extend the zone to the few three-variable relations the kernels need (i + il - iu + 2 <= 0); they are
    dropped as soon as one of their variables may change."""
    __slots__ = ('d', 'facts', 'cong')

    def __init__(self, d, facts=frozenset(), cong=None):
        self.d = d
        self.facts = facts
        self.cong = cong or {}

    def copy(self):
        return State(self.d.copy(), self.facts, dict(self.cong))

    def join(self, o):
        return State(self.d.join(o.d), self.facts & o.facts, _cjoin(self.cong, o.cong))

    def widen(self, o):
        return State(self.d.widen(o.d), self.facts & o.facts, _cjoin(self.cong, o.cong))

    def leq(self, o):
        if not (self.d.leq(o.d) and o.facts <= self.facts):
            return False
        for v, (m2, r2) in o.cong.items():
            if v not in self.cong:
                return False
            m1, r1 = self.cong[v]
            # self's value set (r1 mod m1) must be inside o's (r2 mod m2)
            if m2 == 0:
                if not (m1 == 0 and r1 == r2):
                    return False
            elif not ((m1 % m2 == 0 if m1 else True) and (r1 - r2) % m2 == 0):
                return False
        return True

    def is_bot(self):
        return self.d.is_bot()

    # DBM-compatible queries used by the proof helpers
    def entails(self, x, y, c):
        return self.d.entails(x, y, c)

    def get(self, x, y):
        return self.d.get(x, y)

    def close(self):
        self.d.close()
        return self

    @property
    def bot(self):
        return self.d.bot


def _round_down_pattern(fn, node):
    """(x variable key, c) if node is  x - (x & (c - 1))  with c a power-of-two constant (round x down to a multiple of c)"""
    n = fn.strip(node)
    if n is None or n['k'] != 'BinaryOperator' or n.get('op') != '-':
        return None
    l, r = fn.strip(fn.nodes[n['c'][0]]), fn.strip(fn.nodes[n['c'][1]])
    if r is None or r['k'] != 'BinaryOperator' or r.get('op') != '&':
        return None
    a, b = fn.strip(fn.nodes[r['c'][0]]), fn.strip(fn.nodes[r['c'][1]])
    x = zone.var_of(fn, l)
    if x is None or zone.var_of(fn, a) != x:
        return None
    mk = zone.linear(fn, b)
    if mk is None or mk[0] != 'Z':
        return None
    c = mk[1] + 1
    if c < 1 or (c & (c - 1)) != 0:
        return None
    return x, c


def _cong_step(fn, st, n):
    """congruence transfer for an element that writes an integer (or modelled pointer-row) variable"""
    w = zone.written_var(fn, n)
    tgt, kind, rhs = None, None, None
    if w is not None:
        tgt, kind, rhs = w
    elif n['k'] == 'DeclStmt' and len(n.get('decls', [])) == 1 and 'var' in n['decls'][0]:
        dd = n['decls'][0]
        lv = fn.locals[dd['var']]
        if lv['type'] in zone.INT_TYPES and 'init' in dd:
            tgt, kind, rhs = ('v', dd['var']), '=', fn.nodes[dd['init']]
        elif lv['type'] in zone.INT_TYPES:
            st.cong.pop(('v', dd['var']), None)
            return
    if tgt is None:
        # calls may kill variables: drop what the zone's kill set names
        for v in zone.killed_vars(fn, n):
            st.cong.pop(v, None)
        return
    old = st.cong.get(tgt)
    st.cong.pop(tgt, None)
    if kind in ('++', '--'):
        if old is not None:
            m, r = old
            r2 = r + (1 if kind == '++' else -1)
            st.cong[tgt] = (m, r2 % m if m else r2)
        return
    if kind in ('+=', '-='):
        lin = zone.linear(fn, rhs)
        if old is not None and lin is not None and lin[0] == 'Z':
            m, r = old
            r2 = r + (lin[1] if kind == '+=' else -lin[1])
            st.cong[tgt] = (m, r2 % m if m else r2)
        return
    if kind == '=':
        rd = _round_down_pattern(fn, rhs)
        if rd is not None:
            x, c = rd
            if c > 1:
                st.cong[tgt] = (c, 0)
            elif x in st.cong:
                st.cong[tgt] = st.cong[x]
            st.d.add(tgt, x, 0)            # rounded value <= x
            st.d.add(x, tgt, c - 1)        # x - rounded value <= c - 1
            return
        lin = zone.linear(fn, rhs)
        if lin is not None:
            if lin[0] == 'Z':
                st.cong[tgt] = (0, lin[1])
            elif lin[0] in st.cong and lin[0] != tgt:
                m, r = st.cong[lin[0]]
                st.cong[tgt] = (m, (r + lin[1]) % m if m else r + lin[1])


def _cong_refine(fn, st, cond):
    """after a comparison between two variables with known congruences: round the zone's bound on their difference down to the
    nearest value the congruences allow (i < y, both multiples of 4  =>  i <= y - 4)"""
    from math import gcd
    if not st.cong:
        return
    vs = set()
    for y in fn.walk(cond['id']):
        if y['k'] in ('DeclRefExpr', 'MemberExpr'):
            v = zone.var_of(fn, y)
            if v is not None and v in st.cong:
                vs.add(v)
    vs = sorted(vs, key=str)
    st.d.close()
    if st.d.bot:
        return
    for a in vs:
        for b in vs:
            if a == b:
                continue
            (ma, ra), (mb, rb) = st.cong[a], st.cong[b]
            m = gcd(ma, mb)
            if m <= 1:
                continue
            bound = st.d.get(a, b)
            if bound == zone.INF:
                continue
            want = (ra - rb) % m
            t = bound - ((bound - want) % m)
            if t < bound:
                st.d.add(a, b, t)


def _cond_facts(fn, cond, truth, out):
    """Linear facts L <= 0 implied by cond == truth (comparisons, && under truth, || under falsity)."""
    n = fn.strip(cond)
    if n is None:
        return
    k = n['k']
    if k == 'UnaryOperator' and n.get('op') == '!':
        _cond_facts(fn, fn.nodes[n['c'][0]], not truth, out)
        return
    if k == 'BinaryOperator' and n.get('op') in ('&&', '||'):
        if (n['op'] == '&&') == truth:
            _cond_facts(fn, fn.nodes[n['c'][0]], truth, out)
            _cond_facts(fn, fn.nodes[n['c'][1]], truth, out)
        return
    if k == 'BinaryOperator' and n.get('op') in ('<', '<=', '>', '>=', '=='):
        a, b = linform(fn, fn.nodes[n['c'][0]]), linform(fn, fn.nodes[n['c'][1]])
        if a is None or b is None:
            return
        op = n['op']
        if not truth:
            if op == '==':
                return
            op = {'<': '>=', '<=': '>', '>': '<=', '>=': '<'}[op]
        ab = lf_sub(a, b)
        ba = lf_sub(b, a)

        def add(L, c):
            L = dict(L)
            L[1] = L.get(1, 0) + c
            if len([k_ for k_ in L if k_ != 1 and L[k_] != 0]) >= 3:      # two-variable facts are the zone's business
                out.add(frozenset(L.items()))
        if op == '<':
            add(ab, 1)
        elif op == '<=':
            add(ab, 0)
        elif op == '>':
            add(ba, 1)
        elif op == '>=':
            add(ba, 0)
        elif op == '==':
            add(ab, 0)
            add(ba, 0)


def _decl_init(fn, varid):
    cache = getattr(fn, '_decl_inits', None)
    if cache is None:
        cache = fn._decl_inits = {}
        for x in fn.walk():
            if x['k'] == 'DeclStmt':
                for d in x.get('decls', []):
                    if 'var' in d and 'init' in d:
                        cache[d['var']] = d['init']
    return cache.get(varid)


def _decl_facts(fn, st, n):
    """`T v = a + b - c ...;` with three or more variables: the zone cannot hold the definition, the general fact set can
    (v - L <= 0 and L - v <= 0); the facts die with the first write of one of their variables (kill_facts)."""
    if n['k'] != 'DeclStmt' or len(n.get('decls', [])) != 1 or 'init' not in n['decls'][0]:
        return
    d = n['decls'][0]
    lv = fn.locals.get(d['var'])
    if lv is None or lv['type'] not in zone.INT_TYPES:
        return
    if zone.linear(fn, fn.nodes[d['init']]) is not None:
        return
    L = linform(fn, fn.nodes[d['init']])
    v = ('v', d['var'])
    if L is None or v in L:
        return
    if len([k for k in L if k != 1 and L[k] != 0]) < 2:
        return
    up = dict(L)
    up[v] = up.get(v, 0) - 1                      # L - v <= 0
    lo = {k: -c for k, c in up.items()}           # v - L <= 0
    st.facts = st.facts | frozenset([frozenset(up.items()), frozenset(lo.items())])


def analyse(fn, entry, post=None):
    """Returns {(block id, element index): State holding BEFORE that element} and {block id: State at block exit}."""
    if not isinstance(entry, State):
        entry = State(entry)
    blocks = fn.cfg['blocks']
    entry_id = fn.cfg['entry']
    preds = fn.preds()
    order = []
    seen = set()

    def dfs(b):
        stack = [(b, iter(fn.succs(b)))]
        seen.add(b)
        while stack:
            n, it = stack[-1]
            adv = False
            for s in it:
                if s not in seen:
                    seen.add(s)
                    stack.append((s, iter(fn.succs(s))))
                    adv = True
                    break
            if not adv:
                order.append(n)
                stack.pop()
    dfs(entry_id)
    order.reverse()
    pos = {b: i for i, b in enumerate(order)}
    loop_heads = set()
    for b in order:
        for s in fn.succs(b):
            if s in pos and pos[s] <= pos[b]:
                loop_heads.add(s)
    OUT = {}
    IN = {}
    visits = {b: 0 for b in order}

    def edge(p, b):
        o = OUT.get(p)
        if o is None:
            return None
        blk = fn.blocks[p]
        cond = blk.get('termcond', -1)
        st = o.copy()
        if blk.get('termk') in BRANCH_TERMS and cond is not None and cond >= 0 and len(blk['succs']) == 2:
            ss = blk['succs']
            idxs = [i for i, s in enumerate(ss) if s == b]
            if len(idxs) == 1:
                truth = idxs[0] == 0
                _cong_refine(fn, st, fn.nodes[cond])
                zone.assume(fn, st.d, fn.nodes[cond], truth)
                _cong_refine(fn, st, fn.nodes[cond])
                new = set()
                _cond_facts(fn, fn.nodes[cond], truth, new)
                if new:
                    st.facts = st.facts | frozenset(new)
        if st.is_bot():
            return None
        return st

    def kill_facts(st, n):
        if not st.facts:
            return
        kv = zone.killed_vars(fn, n)
        if not kv:
            return
        fields_all = False
        fields = set()
        plain = set()
        for v in kv:
            if isinstance(v, tuple) and v[0] == 'fields':
                if v[1] is None:
                    fields_all = True
                else:
                    fields |= set(v[1])
            else:
                plain.add(v)
        cf = zone.const_fields(fn)

        def dead(f):
            for (var, coef) in f:
                if var == 1:
                    continue
                if var in plain:
                    return True
                if isinstance(var, tuple) and var[0] == 'f' and var[1] not in cf and (fields_all or var[1] in fields):
                    return True
                # a const local whose initialiser was inlined never appears; its operands do
            return False
        st.facts = frozenset(f for f in st.facts if not dead(f))

    def transfer(b, st, record=None):
        st = st.copy()
        for i, e in enumerate(fn.blocks[b]['elems']):
            if record is not None:
                record[(b, i)] = st.copy()
            if isinstance(e, int):
                kill_facts(st, fn.nodes[e])
                zone.step(fn, st.d, fn.nodes[e])
                _cong_step(fn, st, fn.nodes[e])
                _decl_facts(fn, st, fn.nodes[e])
                if post is not None:
                    post(fn, st, fn.nodes[e])
            elif isinstance(e, dict) and 'decl' in e:
                # one declarator of a multi-declarator statement (the CFG splits `T a = x, b = y;`)
                v = ('v', e['decl'])
                kill_facts(st, {'k': 'DeclStmt', 'id': -1, 'decls': [{'var': e['decl']}]})
                st.d.forget(v)
                lv = fn.locals.get(e['decl'])
                init = _decl_init(fn, e['decl'])
                if zone.PTR_STEP is not None and lv is not None and zone_is_ptr(lv['type']):
                    fake = {'k': 'DeclStmt', 'id': -1, 'decls': [dict({'var': e['decl']}, **({'init': init} if init is not None else {}))]}
                    zone.PTR_STEP(fn, st.d, fake)
                if lv is not None and init is not None and lv['type'] in zone.INT_TYPES:
                    lin = zone.linear(fn, fn.nodes[init])
                    if lin is not None and lin[0] != v:
                        st.d.assign_var_plus(v, lin[0], lin[1])
                    elif lin is None:
                        zone.assign_general(fn, st.d, v, fn.nodes[init])
        return st

    def compute_in(b):
        if b == entry_id:
            return entry.copy()
        acc = None
        for p in preds[b]:
            st = edge(p, b)
            if st is None:
                continue
            acc = st if acc is None else acc.join(st)
        return acc

    changed = True
    rounds = 0
    while changed and rounds < 60:
        changed = False
        rounds += 1
        for b in order:
            new_in = compute_in(b)
            if new_in is None:
                continue
            old = IN.get(b)
            if old is not None and b in loop_heads:
                visits[b] += 1
                if visits[b] > 2:
                    new_in = old.widen(old.join(new_in))
                else:
                    new_in = old.join(new_in)
            if old is None or not new_in.leq(old) or not old.leq(new_in):
                IN[b] = new_in
                OUT[b] = transfer(b, new_in)
                changed = True
    if rounds >= 60:
        raise AnalysisBroken('zone analysis of %s did not stabilise' % fn.qname)
    for _ in range(2):
        for b in order:
            ni = compute_in(b)
            if ni is None:
                continue
            IN[b] = ni
            OUT[b] = transfer(b, ni)
    rec = {}
    for b in order:
        if b in IN:
            transfer(b, IN[b], rec)
    return rec, OUT


def lin_or_none(fn, n):
    return zone.linear(fn, n)


def prove_le(d, a, b, slack=0):
    """a, b linear forms (var, c): does a <= b + slack hold in zone d?"""
    (x, cx), (y, cy) = a, b
    return d.entails(x, y, cy - cx + slack)


# ---------------------------------------------------------------------------------------------------
# general linear forms  sum(coef * var) + const  and their proof obligations in a zone
# ---------------------------------------------------------------------------------------------------
def linform(fn, n):
    """{var: coef, 1: const} for an integer expression built from + - and multiplication by a constant, else None."""
    n = fn.strip(n)
    if n is None:
        return None
    k = n['k']
    if k == 'IntegerLiteral':
        return {1: int(n['val'])}
    if k == 'CXXMemberCallExpr' and zone.EXTENT_VALUE is not None and n.get('callee') in ('rows', 'cols', 'size'):
        r = zone.EXTENT_VALUE(fn, n)
        if r is not None:
            return lf_of_lin(r)
    v = zone.var_of(fn, n)
    if v is not None:
        # a const local is its initialiser (its operands cannot change while it is in scope within one loop iteration:
        # loop counters advance only in the loop step, after every use)
        if v[0] == 'v' and fn.locals[v[1]].get('const') and fn.locals[v[1]]['kind'] == 'var' and zone.const_local_stable(fn, v[1]):
            for x in fn.walk():
                if x['k'] == 'DeclStmt':
                    for d in x.get('decls', []):
                        if d.get('var') == v[1] and 'init' in d:
                            L = linform(fn, fn.nodes[d['init']])
                            if L is not None:
                                return L
        return {v: 1, 1: 0}
    if 'cval' in n:
        try:
            return {1: int(n['cval'])}
        except ValueError:
            return None
    if k == 'BinaryOperator' and n.get('op') in ('+', '-'):
        a, b = linform(fn, fn.nodes[n['c'][0]]), linform(fn, fn.nodes[n['c'][1]])
        if a is None or b is None:
            return None
        sgn = 1 if n['op'] == '+' else -1
        r = dict(a)
        for kk, vv in b.items():
            r[kk] = r.get(kk, 0) + sgn * vv
        return {kk: vv for kk, vv in r.items() if vv != 0 or kk == 1}
    if k == 'BinaryOperator' and n.get('op') == '*':
        a, b = linform(fn, fn.nodes[n['c'][0]]), linform(fn, fn.nodes[n['c'][1]])
        if a is None or b is None:
            return None
        for x, y in ((a, b), (b, a)):
            if set(x) <= {1}:
                c = x.get(1, 0)
                return {kk: vv * c for kk, vv in y.items()}
        return None
    if k == 'UnaryOperator' and n.get('op') == '-':
        a = linform(fn, fn.nodes[n['c'][0]])
        return None if a is None else {kk: -vv for kk, vv in a.items()}
    return None


def lf_of_lin(lin):
    v, c = lin
    return {1: c} if v == 'Z' else {v: 1, 1: c}


def lf_sub(a, b):
    r = dict(a)
    for k, v in b.items():
        r[k] = r.get(k, 0) - v
    return {k: v for k, v in r.items() if v != 0 or k == 1}


def prove_nonpos(d, L):
    """As _prove_zone, additionally using at most one general linear fact F <= 0 of the state:  L = F + (L - F)."""
    if _prove_zone(d, L):
        return True
    for F in getattr(d, 'facts', ()):
        Fd = dict(F)
        if _prove_zone(d, lf_sub(L, Fd)):
            return True
    return False


def _prove_zone(d, L):
    """Does the linear form L <= 0 hold in every point of zone d?  L = sum(+x) - sum(y) + c with unit coefficients is bounded
    by pairing every positive variable with a negative one (or with zero) and summing the zone's bounds on the differences:
    sound (each pairing gives an upper bound of L), decided by the best pairing."""
    import itertools
    c = L.get(1, 0)
    pos, neg = [], []
    for k, v in L.items():
        if k == 1 or v == 0:
            continue
        if v != int(v) or abs(v) > 3:
            return False
        (pos if v > 0 else neg).extend([k] * abs(int(v)))
    if not pos and not neg:
        return c <= 0
    if len(pos) + len(neg) > 6:
        return False
    d.close()
    if d.bot:
        return True
    m = max(len(pos), len(neg))
    P = pos + ['Z'] * (m - len(pos))
    N = neg + ['Z'] * (m - len(neg))
    best = INF
    for perm in set(itertools.permutations(N)):
        tot = 0
        for x, y in zip(P, perm):
            b = 0 if x == y else d.get(x, y)
            if b == INF:
                tot = INF
                break
            tot += b
        best = min(best, tot)
    return best + c <= 0


def upper_forms(fn, n):
    """Linear forms U with expr <= U (for expressions with min / + / - of linear parts)."""
    n = fn.strip(n)
    L = linform(fn, n)
    if L is not None:
        return [L]
    if n is None:
        return []
    if n['k'] == 'CallExpr' and n.get('callee') == 'min' and n.get('org') != 'S':
        out = []
        for a in fn.call_args(n):
            out += upper_forms(fn, a)
        return out
    if n['k'] == 'BinaryOperator' and n.get('op') == '+':
        out = []
        for a in upper_forms(fn, fn.nodes[n['c'][0]]):
            for b in upper_forms(fn, fn.nodes[n['c'][1]]):
                r = dict(a)
                for k, v in b.items():
                    r[k] = r.get(k, 0) + v
                out.append(r)
        return out
    if n['k'] == 'BinaryOperator' and n.get('op') == '-':
        out = []
        for a in upper_forms(fn, fn.nodes[n['c'][0]]):
            for b in lower_forms(fn, fn.nodes[n['c'][1]]):
                out.append(lf_sub(a, b))
        return out
    return []


def lower_forms(fn, n):
    """Linear forms L with expr >= L."""
    n = fn.strip(n)
    L = linform(fn, n)
    if L is not None:
        return [L]
    if n is None:
        return []
    if n['k'] == 'CallExpr' and n.get('callee') == 'max' and n.get('org') != 'S':
        out = []
        for a in fn.call_args(n):
            out += lower_forms(fn, a)
        return out
    if n['k'] == 'BinaryOperator' and n.get('op') == '+':
        out = []
        for a in lower_forms(fn, fn.nodes[n['c'][0]]):
            for b in lower_forms(fn, fn.nodes[n['c'][1]]):
                r = dict(a)
                for k, v in b.items():
                    r[k] = r.get(k, 0) + v
                out.append(r)
        return out
    return []


def nonneg(fn, z, n):
    """expr >= 0 in zone z (min(a, b) >= 0 needs both)."""
    n = fn.strip(n)
    L = linform(fn, n)
    if L is not None:
        return prove_nonpos(z, {k: -v for k, v in L.items()})
    if n is not None and n['k'] == 'CallExpr' and n.get('callee') == 'min' and n.get('org') != 'S':
        return all(nonneg(fn, z, a) for a in fn.call_args(n))
    if n is not None and n['k'] == 'BinaryOperator' and n.get('op') == '+':
        return nonneg(fn, z, fn.nodes[n['c'][0]]) and nonneg(fn, z, fn.nodes[n['c'][1]])
    return any(prove_nonpos(z, {k: -v for k, v in L2.items()}) for L2 in lower_forms(fn, n))


def at_most(fn, z, n, ext, slack=0):
    """expr <= ext + slack in zone z."""
    for U in upper_forms(fn, n):
        d = lf_sub(U, ext)
        d = dict(d)
        d[1] = d.get(1, 0) - slack
        if prove_nonpos(z, d):
            return True
    return False


def linform_cases(fn, nodes, z):
    """For index expressions containing std::max / std::min of linear parts: enumerate the choice made by each distinct
    max / min expression (the same expression makes the same choice everywhere) and yield (zone refined with the choice's
    defining inequality, [linear form of each node]).  Obligations must hold in every case."""
    from .sym import sym, show
    mm = {}
    for n in nodes:
        for y in fn.walk(n['id']):
            if y['k'] == 'CallExpr' and y.get('callee') in ('max', 'min') and len(fn.call_args(y)) == 2:
                mm.setdefault(show(sym(fn, y, inline=False)), y)
    keys = sorted(mm)
    if not keys:
        yield z, [linform(fn, n) for n in nodes]
        return
    if len(keys) > 3:
        yield z, [None for _ in nodes]
        return
    import itertools

    def lf(n, choice):
        n = fn.strip(n)
        if n is None:
            return None
        if n['k'] == 'CallExpr' and n.get('callee') in ('max', 'min') and len(fn.call_args(n)) == 2:
            key = show(sym(fn, n, inline=False))
            return lf(fn.call_args(n)[choice[key]], choice)
        if n['k'] == 'BinaryOperator' and n.get('op') in ('+', '-'):
            a, b = lf(fn.nodes[n['c'][0]], choice), lf(fn.nodes[n['c'][1]], choice)
            if a is None or b is None:
                return None
            sgn = 1 if n['op'] == '+' else -1
            r = dict(a)
            for kk, vv in b.items():
                r[kk] = r.get(kk, 0) + sgn * vv
            return {kk: vv for kk, vv in r.items() if vv != 0 or kk == 1}
        return linform(fn, n)
    for pick in itertools.product((0, 1), repeat=len(keys)):
        choice = dict(zip(keys, pick))
        zz = z.copy()
        ok = True
        for key in keys:
            y = mm[key]
            a = fn.call_args(y)
            chosen, other = lf(a[choice[key]], choice), lf(a[1 - choice[key]], choice)
            if chosen is None or other is None:
                ok = False
                break
            # max picks `chosen` when chosen >= other; min when chosen <= other
            L = lf_sub(other, chosen) if y['callee'] == 'max' else lf_sub(chosen, other)
            from .contracts import add_fact
            add_fact(zz, L)
        if not ok:
            yield z, [None for _ in nodes]
            return
        zz.close()
        if zz.bot:
            continue
        yield zz, [lf(n, choice) for n in nodes]
