"""C16 -- partial SVD: shape predicates, cache coherence, clamps (structural clauses)."""
from .facts import AnalysisBroken
from . import hygiene, c06
from .sym import sym, show, atoms
from .xeval import ev, CannotEval

EXPLANATION = (
    'Table agreement and cache-coherence rules over the instantiated PartialSVDSolver (dense and sparse input) and its two '
    'operators. Decides: (D1) the three shape predicates partition the shapes identically (evaluated on m <, =, > n): the '
    'constructor uses the A\'A operator exactly when m > n, matrix_V returns the eigenvectors directly exactly when m > n and '
    'matrix_U exactly when m <= n; the tall operator applies A then A\', the wide operator A\' then A, each with dimension '
    'min(m, n); the derived factor multiplies by A (for U) resp. A\' (for V) and scales column i by g(lambda_i) where g -- the '
    'element-wise expression extracted from the code, helpers inlined -- satisfies g(x) sqrt(x) = 1 on a magnitude grid from '
    '1e-30 to 1e14 (no absolute threshold, right power), over the same eigenvalue prefix as the vectors; singular values equal '
    'sqrt(lambda) on the same grid (a clamp at zero is allowed); (D2) the cached eigenvectors are invalidated by '
    'every member that re-runs the inner solver and filled only when empty (matrix_U / matrix_V always describe the most recent '
    'compute()); (D3) matrix_U(k) / matrix_V(k) clamp k to min(k, nconv) before anything is sized by it, nconv is the value '
    'returned by the inner compute(), and the inner solver is always run with the LargestAlge rule after a fresh init(); (D4) no class keeps a copy of a `const Ref<const M>&` '
    'constructor parameter in a Ref member unless every construction site passes a member of the constructing object: the stored matrix reference stays valid '
    'for inputs that need an evaluated temporary (other storage order, expressions). Does NOT '
    'decide agreement with a reference SVD, orthonormality of the derived factor, or finiteness for rank-deficient input.')
ASSUMPTIONS = ['the inner symmetric solver satisfies C01/C05']


def shape_predicates(ctx, rule='shape-predicates-agree'):
    recs = sorted(set(f.record for f in ctx.F.concrete() if f.cls == 'Spectra::PartialSVDSolver'))
    if len(recs) < 2:
        raise AnalysisBroken('PartialSVDSolver: %d instantiations' % len(recs))
    for rec in recs:
        ms = {f.name: f for f in ctx.F.methods(rec)}
        ctor = [f for f in ctx.F.methods(rec) if f.d.get('ctor')][0]
        problems = []

        def pred(fn):
            ifs = [i for i in fn.walk() if i['k'] == 'IfStmt' and {('F', 'm_m'), ('F', 'm_n')} <= atoms(sym(fn, i['cond'], inline=False))]
            return ifs
        table = {}
        for name, fn in (('ctor', ctor), ('matrix_U', ms.get('matrix_U')), ('matrix_V', ms.get('matrix_V'))):
            if fn is None:
                raise AnalysisBroken('%s::%s not analysed' % (rec, name))
            ifs = pred(fn)
            if len(ifs) != 1:
                problems.append('%s has %d shape tests' % (name, len(ifs)))
                continue
            vals = []
            for (m, n) in ((2, 3), (3, 3), (4, 3)):
                try:
                    vals.append(bool(ev(fn, ifs[0]['cond'], {('field', 'm_m'): m, ('field', 'm_n'): n})))
                except CannotEval as e:
                    raise AnalysisBroken('cannot evaluate shape test: %s' % e)
            table[name] = (tuple(vals), ifs[0], fn)
        if len(table) == 3:
            tall = table['ctor'][0]
            if tall != (False, False, True):
                problems.append('constructor selects the A\'A operator for shapes %s (expected only m > n)' % (tall,))
            # what the then-branch of the ctor builds
            i, fn = table['ctor'][1], table['ctor'][2]
            built = [x.get('alloc', '') for x in fn.walk(i['then']) if x['k'] == 'CXXNewExpr']
            if not built or 'SVDTallMatOp' not in built[0]:
                problems.append('m > n does not build the tall (A\'A) operator: %s' % built)
            builte = [x.get('alloc', '') for x in fn.walk(i['else']) if x['k'] == 'CXXNewExpr'] if i.get('else', -1) >= 0 else []
            if not builte or 'SVDWideMatOp' not in builte[0]:
                problems.append('m <= n does not build the wide (AA\') operator: %s' % builte)
            if table['matrix_V'][0] != tall:
                problems.append('matrix_V returns the eigenvectors directly for shapes %s but the A\'A operator is used for %s' % (table['matrix_V'][0], tall))
            if table['matrix_U'][0] != tuple(not t for t in tall):
                problems.append('matrix_U returns the eigenvectors directly for shapes %s but the AA\' operator is used for %s' % (table['matrix_U'][0], tuple(not t for t in tall)))
            # direct branch returns the cache prefix; derived branch multiplies by A / A'
            for name, trans in (('matrix_U', False), ('matrix_V', True)):
                i, fn = table[name][1], table[name][2]
                p0 = fn.locals[fn.params[0]]['name']
                rets_then = [sym(fn, r['value'], inline=False) for r in fn.walk(i['then']) if r['k'] == 'ReturnStmt']
                if rets_then != [('leftCols', ('F', 'm_evecs'), ('P', p0))]:
                    problems.append('%s: direct branch returns %s' % (name, [show(r) for r in rets_then]))
                others = [r for r in fn.walk() if r['k'] == 'ReturnStmt' and not fn.within(r, i['then'])]
                if len(others) != 1:
                    problems.append('%s: %d derived returns' % (name, len(others)))
                else:
                    t = sym(fn, others[0]['value'], inline=False)
                    left = t[1] if t[0] == '*' else None
                    want = ('transpose', ('F', 'm_mat')) if trans else ('F', 'm_mat')
                    if left != want:
                        problems.append('%s: derived factor is %s * (...), expected %s' % (name, show(left) if left else show(t), show(want)))
                    t = _inline_helpers(ctx, rec, sym(fn, others[0]['value']))
                    sc = t[2] if t[0] == '*' and len(t) == 3 else None
                    g = None
                    if isinstance(sc, tuple) and sc[0] in ('/', '*') and len(sc) == 3:
                        rw = [x for x in sc[1:] if isinstance(x, tuple) and x[0] == 'rowwise']
                        ot = [x for x in sc[1:] if not (isinstance(x, tuple) and x[0] == 'rowwise')]
                        if len(rw) == 1 and len(ot) == 1 and (sc[0] == '*' or sc[1][0] == 'rowwise'):
                            g = (sc[0], ot[0])
                        # vectors * diag(d): the same column scaling written as a product with a diagonal matrix
                        dg = [x for x in sc[1:] if isinstance(x, tuple) and x[0] == 'asDiagonal']
                        lc = [x for x in sc[1:] if isinstance(x, tuple) and x[0] == 'leftCols']
                        if sc[0] == '*' and len(dg) == 1 and len(lc) == 1 and sc[2] == dg[0]:
                            g = ('*', dg[0][1])
                    if g is None:
                        raise AnalysisBroken('%s::%s: scaling of the derived factor not recognised: %s' % (rec, name, show(t)))
                    bad = []
                    for S_ in _scale_grid(ctx, rec):
                        _CUR_SCALE[0] = S_
                        for lam in GRID:
                            try:
                                v = _scalar(g[1], lam)
                            except CannotEval as e:
                                _CUR_SCALE[0] = 1.0
                                raise AnalysisBroken('%s::%s: scaling outside the scalar domain: %s' % (rec, name, e))
                            scale = (1.0 / v if v != 0 else float('inf')) if g[0] == '/' else v
                            # the inner eigenvalue lam belongs to the operator built on A / S: the singular value is S sqrt(lam)
                            if not abs(scale * S_ * lam ** 0.5 - 1.0) <= 1e-9:
                                bad.append('%g%s' % (lam, '' if S_ == 1.0 else ' (operator scale %g)' % S_))
                    _CUR_SCALE[0] = 1.0
                    # a zero singular value (zero matrix, rank-deficient matrix: both named by the quantifiers) reaches the accessor as an
                    # inner eigenvalue that is zero up to rounding, on either side of zero: the column scaling must stay finite there
                    # (A v is zero as well, so anything but a finite factor gives 0/0 = NaN columns)
                    nonfinite = []
                    for lam in (0.0, -1e-30, -1e-17, -3e-16):
                        try:
                            v = _scalar(g[1], lam)
                        except CannotEval as e:
                            raise AnalysisBroken('%s::%s: scaling outside the scalar domain: %s' % (rec, name, e))
                        f_ = (1.0 / v if v != 0 else float('inf')) if g[0] == '/' else v
                        if not (f_ == f_ and abs(f_) != float('inf')):
                            nonfinite.append('%g -> %s' % (lam, f_))
                    if nonfinite:
                        problems.append('%s: the column scaling of the derived factor is not finite for a zero singular value (inner eigenvalue %s): the singular vectors of the zero matrix and of rank-deficient matrices come back as NaN' % (name, ', '.join(nonfinite)))
                    if bad:
                        problems.append('%s: the derived factor is not scaled by 1/sqrt(eigenvalue) for eigenvalues %s (an absolute threshold or a different power: the factor is not normalised for matrices of that magnitude)' % (name, ', '.join(bad)))
                    heads = [x for x in _walk(t) if isinstance(x, tuple) and x[0] in ('head', 'leftCols')]
                    if not all(h[-1] == ('P', p0) for h in heads) or len(heads) < 2:
                        problems.append('%s: eigenvalue / eigenvector prefixes of different lengths' % name)
        ctx.check(not problems, rule, 'PartialSVDSolver', rec,
                  'tall <=> m > n in constructor, matrix_U and matrix_V; derived factor = A (A\') * vectors / sqrt(values)' if not problems else '; '.join(problems))
    # operators: tall = A'(A x), wide = A (A' x), dimension min(m, n)
    for tmpl, first_trans in (('Spectra::SVDTallMatOp', False), ('Spectra::SVDWideMatOp', True)):
        fns = [f for f in ctx.F.concrete() if f.cls == tmpl and f.name == 'perform_op']
        if not fns:
            raise AnalysisBroken('%s::perform_op not analysed' % tmpl)
        for fn in fns:
            asg = [sym(fn, x, inline=False) for x in fn.walk() if x['k'] in ('CXXOperatorCallExpr', 'BinaryOperator') and x.get('op') == '=']
            prods = [t[2] for t in asg if isinstance(t[2], tuple) and t[2][0] == '*']
            ok = len(prods) == 2
            if ok:
                a, b = prods
                fa = ('transpose', ('F', 'm_mat')) if first_trans else ('F', 'm_mat')
                fb = ('F', 'm_mat') if first_trans else ('transpose', ('F', 'm_mat'))
                ok = a[1] == fa and b[1] == fb and b[2] == ('F', 'm_cache') and asg[0][1] == ('F', 'm_cache')
            ctx.check(ok, rule, tmpl.replace('Spectra::', '') + '::perform_op', fn.qname,
                      ('y = A (A\' x)' if first_trans else 'y = A\' (A x)') if ok else 'operator is not the documented composition: %s' % [show(p) for p in prods])
        for c in [f for f in ctx.F.concrete() if f.cls == tmpl and f.d.get('ctor')]:
            ini = {i['member']: sym(c, i['expr'], inline=False) for i in c.inits}
            d = ini.get('m_dim')
            ok = d is not None and d[0] == 'call' and d[1] == 'min' and {show(d[2]), show(d[3])} == {'rows(mat)', 'cols(mat)'}
            ctx.check(ok, rule, tmpl.replace('Spectra::', '') + '::ctor', c.qname, 'dimension = min(rows, cols)' if ok else 'dimension is %s' % (show(d) if d else None))



EPS = 2.220446049250313e-16


def _subst(t, m):
    if not isinstance(t, tuple):
        return t
    if t[0] == 'P' and t[1] in m:
        return m[t[1]]
    return tuple(_subst(x, m) if isinstance(x, tuple) else x for x in t)


def _inline_helpers(ctx, rec, t, depth=0):
    """replace calls of the class's own one-line helpers  name(this, args..)  by their returned expression"""
    if not isinstance(t, tuple) or depth > 3:
        return t
    if len(t) >= 2 and t[1] == ('this',) and isinstance(t[0], str):
        cands = [f for f in ctx.F.methods(rec) if f.name == t[0] and f.cfg]
        if len(cands) == 1:
            g = cands[0]
            rets = [r for r in g.walk() if r['k'] == 'ReturnStmt']
            if len(rets) == 1:
                body = sym(g, rets[0]['value'])
                m = {g.locals[pid]['name']: t[2 + i] for i, pid in enumerate(g.params) if 2 + i < len(t)}
                return _inline_helpers(ctx, rec, _subst(body, m), depth + 1)
    return tuple(_inline_helpers(ctx, rec, x, depth) if isinstance(x, tuple) else x for x in t)


_CUR_SCALE = [1.0]        # value of the operator's scale() while an accessor expression is evaluated


def _scalar(t, lam):
    """value at eigenvalue `lam` of an element-wise expression over the inner solver's eigenvalues (views are transparent)"""
    import math
    if not isinstance(t, tuple):
        raise CannotEval(repr(t))
    op = t[0]
    if op == 'eigenvalues':
        return lam
    if op == 'scale' and len(t) == 2:
        return _CUR_SCALE[0]          # m_op->scale(): the factor by which the operator's matrix was divided
    if op in ('head', 'tail', 'transpose', 'array', 'matrix', 'segment', 'real', 'eval'):
        return _scalar(t[1], lam)
    if op == 'lit':
        return float(t[1])
    if op in ('sqrt', 'cwiseSqrt'):
        v = _scalar(t[1], lam)
        return math.sqrt(v) if v >= 0 else float('nan')
    if op in ('inverse', 'cwiseInverse'):
        v = _scalar(t[1], lam)
        return 1.0 / v if v != 0 else float('inf')
    if op in ('abs', 'cwiseAbs'):
        return abs(_scalar(t[1], lam))
    if op in ('max', 'cwiseMax', 'min', 'cwiseMin') and len(t) == 3:
        a, b = _scalar(t[1], lam), _scalar(t[2], lam)
        return max(a, b) if 'ax' in op else min(a, b)
    if op == 'call':
        if t[1] == 'epsilon':
            return EPS
        if t[1] in ('Zero', 'Ones'):
            return 0.0 if t[1] == 'Zero' else 1.0
        args = [_scalar(x, lam) for x in t[2:]]
        if t[1] == 'pow' and len(args) == 2:
            return args[0] ** args[1]
        if t[1] == 'sqrt' and len(args) == 1:
            return math.sqrt(args[0]) if args[0] >= 0 else float('nan')
        if t[1] in ('abs', 'fabs') and len(args) == 1:
            return abs(args[0])
        if t[1] in ('max', 'min') and len(args) == 2:
            return max(args) if t[1] == 'max' else min(args)
        raise CannotEval('call %s' % t[1])
    if op in ('+', '-', '*', '/') and len(t) == 3:
        a, b = _scalar(t[1], lam), _scalar(t[2], lam)
        if op == '/':
            return a / b if b != 0 else float('inf')
        return a + b if op == '+' else a - b if op == '-' else a * b
    if op == 'u-':
        return -_scalar(t[1], lam)
    if op == 'select' and len(t) == 4:
        return _scalar(t[2], lam) if _scalar(t[1], lam) else _scalar(t[3], lam)
    if op in ('<', '<=', '>', '>=', '==', '!=') and len(t) == 3:
        a, b = _scalar(t[1], lam), _scalar(t[2], lam)
        return {'<': a < b, '<=': a <= b, '>': a > b, '>=': a >= b, '==': a == b, '!=': a != b}[op]
    if op in ('Zero', 'Constant', 'Ones'):
        return 0.0 if op == 'Zero' else 1.0 if op == 'Ones' else _scalar(t[-1], lam)
    if op in ('cast', 'ctor') and len(t) >= 2:
        return _scalar(t[-1], lam)
    raise CannotEval(show(t))


def _ops_normalise(ctx, rec):
    """True if the two SVD operators of this instantiation divide by a stored scale in perform_op."""
    mt = rec[rec.index('<') + 1:rec.rindex('>')]
    hits = 0
    for fn in ctx.F.concrete():
        if fn.cls in ('Spectra::SVDTallMatOp', 'Spectra::SVDWideMatOp') and fn.name == 'perform_op' and fn.cfg:
            if any(y['k'] == 'MemberExpr' and y.get('mk') == 'field' and 'scale' in y.get('member', '') for y in fn.walk()):
                hits += 1
    return hits > 0


def _scale_grid(ctx, rec):
    return (1.0, 1e-9, 3e7) if _ops_normalise(ctx, rec) else (1.0,)


GRID = (1e-30, 1e-22, 1e-16, 1e-13, 1e-9, 1e-4, 1.0, 1e6, 1e14)


def _walk(t):
    yield t
    if isinstance(t, tuple):
        for x in t[1:]:
            if isinstance(x, tuple):
                for y in _walk(x):
                    yield y


def clamps(ctx, rule='clamps-and-fixed-rule'):
    from . import paths
    for rec in sorted(set(f.record for f in ctx.F.concrete() if f.cls == 'Spectra::PartialSVDSolver')):
        ms = {f.name: f for f in ctx.F.methods(rec)}
        for name in ('matrix_U', 'matrix_V'):
            fn = ms[name]
            p0 = fn.locals[fn.params[0]]['name']
            cl = [x for x in fn.walk() if x['k'] == 'BinaryOperator' and x.get('op') == '=' and sym(fn, x['c'][0], inline=False) == ('P', p0)]
            ok = len(cl) == 1 and sym(fn, cl[0]['c'][1], inline=False) in (('call', 'min', ('F', 'm_nconv'), ('P', p0)), ('call', 'min', ('P', p0), ('F', 'm_nconv')))
            if ok:
                for x in fn.walk():
                    if x['k'] == 'DeclRefExpr' and x.get('name') == p0 and x.get('dk') == 'param' and not fn.within(x, cl[0]):
                        if not paths.dominated_by(fn, fn.pos_of(x), lambda n, c=cl[0]: n['id'] == c['id']):
                            ok = False
            ctx.check(ok, rule, 'PartialSVDSolver::%s' % name, fn.qname, 'k clamped to min(k, nconv) before use' if ok else 'k is used without being clamped to the converged count')
        comp = ms['compute']
        t = [sym(comp, x, inline=False) for x in comp.walk() if x['k'] in ('BinaryOperator', 'CXXOperatorCallExpr') and x.get('op') == '=']
        nc = [x for x in t if x[1] == ('F', 'm_nconv')]
        ok = len(nc) == 1 and nc[0][2][0] == 'compute' and ('enum', 'LargestAlge') in nc[0][2]
        inits = paths.positions_of(comp, lambda n: n['k'] == 'CXXMemberCallExpr' and n.get('callee') == 'init')
        comps = paths.positions_of(comp, lambda n: n['k'] == 'CXXMemberCallExpr' and n.get('callee') == 'compute')
        ok = ok and bool(inits) and all(paths.dominated_by(comp, c, lambda n: n['k'] == 'CXXMemberCallExpr' and n.get('callee') == 'init') for c in comps)
        rets = [sym(comp, r['value'], inline=False) for r in comp.walk() if r['k'] == 'ReturnStmt']
        ok = ok and rets == [('F', 'm_nconv')]
        ctx.check(ok, rule, 'PartialSVDSolver::compute', comp.qname, 'fresh init(), LargestAlge, nconv = returned count' if ok else 'inner solver is not run as init(); compute(LargestAlge, ..) with the count stored')
        sv = ms['singular_values']
        r = [_inline_helpers(ctx, rec, sym(sv, x['value'])) for x in sv.walk() if x['k'] == 'ReturnStmt']
        bad = []
        if len(r) != 1:
            bad.append('%d returns' % len(r))
        else:
            for S_ in _scale_grid(ctx, rec):
                _CUR_SCALE[0] = S_
                for lam in GRID + (0.0,):
                    try:
                        v = _scalar(r[0], lam)
                    except CannotEval as e:
                        _CUR_SCALE[0] = 1.0
                        raise AnalysisBroken('%s::singular_values outside the scalar domain: %s' % (rec, e))
                    want = S_ * lam ** 0.5
                    if not abs(v - want) <= 1e-12 * max(1.0, want) and not (lam > 0 and abs(v / want - 1) <= 1e-12):
                        bad.append('value %g for eigenvalue %g%s' % (v, lam, '' if S_ == 1.0 else ' of the operator built on A / %g' % S_))
            _CUR_SCALE[0] = 1.0
            # a zero singular value (exactly rank-deficient input, which the property names) comes back from the inner solver as an
            # eigenvalue of A'A that is zero up to rounding -- on either side of zero: the result must still be finite and non-negative
            for lam in (-1e-30, -1e-17, -3e-16):
                v = _scalar(r[0], lam)
                if not (v == v and v >= 0 and v < 1e-7):
                    bad.append('value %s for the eigenvalue %g (a rounding-level negative eigenvalue of A\'A: a zero singular value of a rank-deficient matrix): the square root is not guarded' % (v, lam))
                    break
        ctx.check(not bad, rule, 'PartialSVDSolver::singular_values', sv.qname,
                  'sqrt of the inner eigenvalues on the whole magnitude grid (a clamp at zero is allowed)' if not bad else 'returns %s: %s' % ([show(x) for x in r], '; '.join(bad[:3])))


def operator_normalised(ctx, rule='svd-operator-normalised'):
    """The inner symmetric solver accepts a Ritz pair when its estimate is below tol * max(eps^(2/3), |theta|): an ABSOLUTE floor
    (documented, from ARPACK).  The SVD wrapper hands it A'A (or AA'), whose spectrum is the squared singular values and scales
    with ||A||^2: for ||A|| below about 1e-6 every theta is under the floor and all values "converge" at once, with errors of
    0.2 ||A||; for ||A|| above 1e77 the squares overflow.  The property asks for the singular values "to the requested tolerance"
    for all matrices.  So the operator must be built on A divided by a scale derived from the magnitudes of its own entries, and
    the accessors must multiply back (the second half is decided by the grid evaluation of the accessor expressions, which takes
    the operator's scale as a parameter)."""
    n = 0
    for cls in ('Spectra::SVDTallMatOp', 'Spectra::SVDWideMatOp'):
        seen = set()
        for fn in ctx.F.concrete():
            if fn.cls != cls or fn.name != 'perform_op' or not fn.cfg or fn.mangled in seen:
                continue
            seen.add(fn.mangled)
            n += 1
            recs = [r for r in ctx.F.records.values() if r['qname'] == fn.record and not r['dep']]
            scale_fields = [f['name'] for f in recs[0]['fields'] if 'scale' in f['name']]
            probs = []
            divs = 0
            for x in fn.walk():
                if x['k'] in ('CXXOperatorCallExpr', 'CompoundAssignOperator', 'BinaryOperator') and x.get('op') in ('/=', '/', '*=', '*'):
                    a = fn.call_args(x) if x['k'] == 'CXXOperatorCallExpr' else [fn.nodes[c] for c in x['c']]
                    if len(a) == 2 and any(y['k'] == 'MemberExpr' and y.get('mk') == 'field' and y.get('member') in scale_fields for y in fn.walk(a[1]['id'])) and x.get('op') in ('/=', '/'):
                        divs += 1
            if not scale_fields or divs == 0:
                probs.append('the operator applies A and A\' as they are')
            elif divs != 2:
                probs.append('the operator divides by its scale %d time(s): A\'A / s^2 needs exactly two' % divs)
            # where the scale comes from: the constructor initialises it from the magnitudes of the entries of the matrix
            ctors = [c for c in ctx.F.concrete() if c.record == fn.record and c.d.get('ctor')]
            okinit = False

            def closure(g, root, depth=0, seen=None):
                """nodes of the expression and of the bodies of the Spectra helpers it calls (depth <= 3)"""
                seen = seen if seen is not None else set()
                for y in g.walk(root):
                    yield y
                    if y['k'] == 'CallExpr' and depth < 3:
                        h = ctx.F.resolve(y)
                        if h is not None and h.mangled not in seen and h.qname.startswith('Spectra::'):
                            seen.add(h.mangled)
                            for z in closure(h, None, depth + 1, seen):
                                yield z
            for c in ctors:
                for i in c.inits:
                    if i['member'] in scale_fields and i['expr'] >= 0:
                        ys = list(closure(c, i['expr']))
                        has_abs = any((z['k'] == 'CallExpr' and z.get('callee') in ('abs', 'fabs')) or
                                      (z['k'] == 'CXXMemberCallExpr' and z.get('callee') in ('cwiseAbs', 'abs')) for z in ys)
                        has_max = any((z['k'] == 'CallExpr' and z.get('callee') in ('max', 'fmax')) or
                                      (z['k'] == 'CXXMemberCallExpr' and z.get('callee') == 'maxCoeff') for z in ys)
                        if has_abs and has_max or any(z['k'] == 'CXXMemberCallExpr' and z.get('callee') == 'maxCoeff' for z in c.walk(i['expr'])):
                            okinit = True
            if scale_fields and not okinit:
                probs.append('the scale is not initialised from the largest magnitude of the entries')
            ctx.check(not probs, rule, '%s::perform_op' % cls.replace('Spectra::', ''), fn.qname,
                      'A\'A is applied as (A/s)\'(A/s) with s the largest magnitude of the entries of A' if not probs else
                      '; '.join(probs) + ': the eigenvalues handed to the inner solver scale with ||A||^2, its convergence test has the absolute floor eps^(2/3) -- for ||A|| below about 1e-6 '
                      'every Ritz value passes at once (nconv == ncomp with singular values off by 0.2 ||A||), for ||A|| above 1e77 the squares overflow')
    if n < 2:
        raise AnalysisBroken('only %d SVD operators analysed' % n)


def run(ctx):
    shape_predicates(ctx)
    operator_normalised(ctx)
    hygiene.view_storage_scanned_with_its_layout(ctx)
    c06.svd_cache(ctx)
    clamps(ctx)
    hygiene.stored_ref_lifetime(ctx)
