"""Builds (and caches) the fact files for the current state of /repo.

The cache key is a hash over every file under /repo/include, the drivers, the controls and the tool
binary, so any edit of the sources under analysis produces a fresh extraction: checks always decide
from /repo's current working tree."""
import fcntl
import hashlib
import os
import shutil
import subprocess
import sys
import time
from concurrent.futures import ThreadPoolExecutor

VERIF = os.path.dirname(os.path.dirname(os.path.abspath(__file__)))
REPO = os.environ.get('SPECTRA_REPO', '/repo')
INCLUDE = os.path.join(REPO, 'include')
ROOT = os.path.join(INCLUDE, 'Spectra')
TOOL = os.path.join(VERIF, 'bin', 'spectra-facts')
DRIVERS = os.path.join(VERIF, 'drivers')
CONTROLS = os.path.join(VERIF, 'selftest', 'controls')
CACHE = os.path.join(VERIF, '.cache')
if REPO != '/repo':
    # analysing a scratch copy (self-tests, seeded changes): keep its facts apart from the real tree's cache
    CACHE = os.environ.get('VERIF_CACHE_DIR') or os.path.join(VERIF, '.cache', 'alt')
FLAGS = ['-std=c++11', '-I' + INCLUDE, '-I' + DRIVERS, '-isystem', '/usr/include/eigen3',
         '-I/usr/lib/llvm-14/lib/clang/14.0.6/include', '-UNDEBUG', '-Wno-everything']


def _files(d, exts):
    out = []
    for base, _, names in os.walk(d):
        for n in sorted(names):
            if n.endswith(exts):
                out.append(os.path.join(base, n))
    return sorted(out)


def tree_hash(tier):
    h = hashlib.sha256()
    for f in _files(INCLUDE, ('.h', '.hpp')) + _files(DRIVERS, ('.cpp', '.h')) + _files(CONTROLS, ('.cpp', '.h')):
        h.update(f.encode())
        with open(f, 'rb') as fh:
            h.update(hashlib.sha256(fh.read()).digest())
    with open(TOOL, 'rb') as fh:
        h.update(hashlib.sha256(fh.read()).digest())
    h.update(tier.encode())
    h.update(REPO.encode())
    return h.hexdigest()[:24]


def driver_list(tier):
    ds = [f for f in _files(DRIVERS, ('.cpp',)) if os.path.dirname(f) == DRIVERS]
    if tier == 'thorough':
        ds += _files(os.path.join(DRIVERS, 'thorough'), ('.cpp',))
    return ds


def _run_one(args):
    src, out, roots = args
    t0 = time.time()
    cmd = [TOOL] + ['--root=' + r for r in roots] + ['-o', out + '.tmp', src, '--'] + FLAGS
    p = subprocess.run(cmd, stdout=subprocess.PIPE, stderr=subprocess.PIPE, text=True)
    ok = p.returncode == 0 and os.path.exists(out + '.tmp') and os.path.getsize(out + '.tmp') > 0
    if ok:
        os.replace(out + '.tmp', out)
    return src, ok, p.stderr[-2000:], time.time() - t0


def ensure_tool():
    if not os.path.exists(TOOL):
        subprocess.check_call([os.path.join(VERIF, 'setup.sh')])


def build(tier='quick', verbose=True):
    """Returns (fact_files, control_files, info)."""
    ensure_tool()
    os.makedirs(CACHE, exist_ok=True)
    with open(os.path.join(CACHE, '.lock'), 'w') as lock:
        fcntl.flock(lock, fcntl.LOCK_EX)
        key = tree_hash(tier)
        d = os.path.join(CACHE, tier + '-' + key)
        done = os.path.join(d, 'DONE')
        drivers = driver_list(tier)
        controls = _files(CONTROLS, ('.cpp',))
        t0 = time.time()
        if not os.path.exists(done):
            # drop stale caches of the same tier (disk is limited)
            for old in os.listdir(CACHE):
                if old.startswith(tier + '-') and old != os.path.basename(d) and REPO == '/repo':
                    shutil.rmtree(os.path.join(CACHE, old), ignore_errors=True)
            os.makedirs(d, exist_ok=True)
            jobs = []
            for s in drivers:
                rel = os.path.relpath(s, DRIVERS).replace('/', '__')
                jobs.append((s, os.path.join(d, rel[:-4] + '.json'), [ROOT]))
            for s in controls:
                jobs.append((s, os.path.join(d, 'control__' + os.path.basename(s)[:-4] + '.json'), [CONTROLS]))
            with ThreadPoolExecutor(max_workers=16) as ex:
                results = list(ex.map(_run_one, jobs))
            bad = [(s, err) for s, ok, err, _ in results if not ok]
            if bad:
                for s, err in bad:
                    sys.stderr.write('fact extraction failed for %s:\n%s\n' % (s, err))
                raise RuntimeError('fact extraction failed for %d translation unit(s): %s' %
                                   (len(bad), ', '.join(os.path.basename(s) for s, _ in bad)))
            with open(done, 'w') as fh:
                fh.write('%.1f\n' % (time.time() - t0))
            if verbose:
                sys.stderr.write('[facts] extracted %d TUs in %.1fs -> %s\n' % (len(jobs), time.time() - t0, d))
        facts = sorted(os.path.join(d, f) for f in os.listdir(d) if f.endswith('.json') and not f.startswith('control__'))
        ctrls = sorted(os.path.join(d, f) for f in os.listdir(d) if f.endswith('.json') and f.startswith('control__'))
        info = {'cache_dir': d, 'key': key, 'drivers': [os.path.relpath(s, VERIF) for s in drivers],
                'controls': [os.path.relpath(s, VERIF) for s in controls], 'extract_s': round(time.time() - t0, 2)}
        return facts, ctrls, info


if __name__ == '__main__':
    f, c, i = build(sys.argv[1] if len(sys.argv) > 1 else 'quick')
    print(i)
