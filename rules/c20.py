"""C20 -- solvers share no hidden mutable state (structural clauses of re-entrancy)."""
from . import hygiene

EXPLANATION = (
    'Static analysis over every class and function body under include/Spectra, template patterns and instantiations alike '
    '(so code that no driver instantiates is covered). Decides: no variable with static or thread storage duration is '
    'mutable (namespace scope, static data members, function-local statics), no function refers to a mutable global of '
    'another library; the six matrix-product wrappers the property allows to be shared have only const state, only const '
    'operations, no mutable field, no const_cast and no field write; every `mutable` field of the library is in a frozen '
    'table of per-solver objects; generator objects are automatic locals; no call into a libc / libstdc++ entry point with '
    'hidden global state. The same is cross-checked on the LLVM IR of every driver: no function of namespace Spectra refers '
    'to a mutable global, the mutable globals reachable through the call graph are six tabulated Eigen / libstdc++ internals, '
    'and the external symbols referenced are the expected runtime entry points. Positive controls (a control TU with one instance of each forbidden construct) must be matched '
    'on every run. Does NOT decide races inside Eigen, libstdc++ or a user-written operator, nor bit-identity of results.')
ASSUMPTIONS = ['Eigen and libstdc++ are data-race free for distinct objects', 'no OpenMP / EIGEN_USE_THREADS in the build (Eigen kernels single-threaded)']


def run(ctx):
    hygiene.static_state(ctx)
    hygiene.shareable_wrappers(ctx)
    hygiene.mutable_fields(ctx)
    n = hygiene.rng_objects_are_locals(ctx)
    if n < 4:
        from .facts import AnalysisBroken
        raise AnalysisBroken('only %d generator construction sites seen (4 confirmed by hand)' % n)
    hygiene.non_reentrant_calls(ctx)
    hygiene.ir_globals(ctx)
    hygiene.ir_externals(ctx)
    ctx.require('shareable-wrapper-is-immutable', 6)
    ctx.require('mutable-fields-classified', 11)
