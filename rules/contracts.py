"""Modular (assume / guarantee) index-range verification of the dense kernels with the zone engine.

Each member in a CONTRACTS table has a precondition and a postcondition written as linear inequalities over its parameters,
the fields of the object and `ret`.  For every instantiated member:
  * its body is analysed from (class invariant + precondition); every element access, view and sub-block of an array with a
    declared extent must be inside the array in the state holding at that point              (index obligations)
  * at every call of a contracted member the caller's state must imply the callee's precondition with the actual arguments
    substituted                                                                               (call obligations)
  * at every return (value contracts) / normal exit (out-parameter contracts) the postcondition must hold     (exit obligations)
  * after a call the postcondition is assumed for the receiving variable / out-argument
Nothing is executed; a contract that does not hold is reported with the member, the site and the inequality that fails."""
import re
from .facts import AnalysisBroken
from .zone import zone_is_ptr
from . import ranges, zone
from .zone import DBM
from .sym import sym, show


def parse_fact(txt):
    """'a + 2 <= b - c'  ->  [({name: coef, 1: const})]  each meaning  L <= 0.  Operators: <=, <, >=, >, ==."""
    m = re.match(r'^(.*?)(<=|>=|==|<|>)(.*)$', txt)
    if not m:
        raise ValueError(txt)
    l, op, r = _lin(m.group(1)), m.group(2), _lin(m.group(3))
    lr = _sub(l, r)
    rl = _sub(r, l)
    if op == '<=':
        return [lr]
    if op == '<':
        return [_addc(lr, 1)]
    if op == '>=':
        return [rl]
    if op == '>':
        return [_addc(rl, 1)]
    return [lr, rl]


def _lin(s):
    if isinstance(s, int):
        return {1: s}
    out = {1: 0}
    for sg, coef, name in re.findall(r'([+-]?)\s*(\d+)?\s*\*?\s*([A-Za-z_][A-Za-z_0-9]*)?', s):
        if not coef and not name:
            continue
        c = int(coef) if coef else 1
        if sg == '-':
            c = -c
        key = name if name else 1
        out[key] = out.get(key, 0) + c
    return out


def _sub(a, b):
    r = dict(a)
    for k, v in b.items():
        r[k] = r.get(k, 0) - v
    return r


def _addc(a, c):
    r = dict(a)
    r[1] = r.get(1, 0) + c
    return r


def _resolve(fn, L, extra=None):
    """names -> zone variables of fn (parameters / locals by name, fields m_*); extra: {name: linear form dict}"""
    out = {1: L.get(1, 0)}
    for k, v in L.items():
        if k == 1 or v == 0:
            continue
        if extra and k in extra:
            e = extra[k]
            if e is None:
                return None
            for kk, vv in e.items():
                out[kk] = out.get(kk, 0) + v * vv
            continue
        if k.startswith('m_'):
            out[('f', k)] = out.get(('f', k), 0) + v
            continue
        m_ = re.match(r'^(rows|cols)_(\w+)$', k)
        if m_:
            key = ('x', '%s.%s' % (m_.group(2), m_.group(1)))
            out[key] = out.get(key, 0) + v
            continue
        ids = [i for i in fn.params if fn.locals[i]['name'] == k]
        if not ids:
            ids = [i for i, lv in fn.locals.items() if lv['name'] == k and lv['type'].replace('const ', '') in ('long', 'int', 'unsigned long')]
        if not ids:
            return None
        out[('v', ids[0])] = out.get(('v', ids[0]), 0) + v
    return {k: v for k, v in out.items() if v != 0 or k == 1}


def add_fact(st, L):
    """assume L <= 0 in State st (two-variable unit facts go to the zone, others to the general fact set)"""
    vs = [(k, v) for k, v in L.items() if k != 1 and v != 0]
    c = L.get(1, 0)
    if len(vs) == 0:
        return
    if len(vs) == 1 and abs(vs[0][1]) == 1:
        (x, a), = vs
        if a == 1:
            st.d.add(x, 'Z', -c)
        else:
            st.d.add('Z', x, -c)
        return
    if len(vs) == 2 and sorted(a for _, a in vs) == [-1, 1]:
        x = [k for k, a in vs if a == 1][0]
        y = [k for k, a in vs if a == -1][0]
        st.d.add(x, y, -c)
        return
    st.facts = st.facts | frozenset([frozenset(L.items())])


class Spec:
    def __init__(self, cls, invariant, extents, members, windows=None, local_extents=None):
        self.cls = cls
        self.invariant = invariant          # [fact]
        self.extents = extents              # field -> [linear form over field names / ints] per dimension
        self.members = members              # name -> {'pre': [...], 'post': [...]}
        self.windows = windows or {}        # kernel name -> (pointer param, rows, cols, stride param) : forms over the kernel's params
        self.local_extents = local_extents or {}


def _con(spec, name, nparams):
    """contract of a member: the arity-specific entry 'name/N' wins over 'name'"""
    return spec.members.get('%s/%d' % (name, nparams), spec.members.get(name))


def _has(spec, name):
    return name in spec.members or any(k.split('/')[0] == name for k in spec.members)


def _callee_key(n):
    return (n.get('cls'), n.get('callee'))


def verify(ctx, spec, check_sites, rule, min_sites=0, extra_post=None, collect=None, extra_sites=None, entry_extra=None, dense_ptr_of=None):
    """check_sites(fn, rec, ext_of) -> (n, problems) is the site checker of C13 (shared)."""
    F = ctx.F
    fns = {}
    for fn in F.concrete():
        if fn.cls == spec.cls and fn.cfg and not fn.d.get('ctor') and _has(spec, fn.name) and _con(spec, fn.name, len(fn.params)) is not None:
            fns.setdefault(fn.mangled, fn)
    if not fns:
        raise AnalysisBroken('%s: no contracted member is instantiated' % spec.cls)
    total_sites = 0
    seen_names = set()
    work = []
    for fn in fns.values():
        con0 = _con(spec, fn.name, len(fn.params))
        for var in con0.get('variants', [None]):
            work.append((fn, var))
    for fn, variant in work:
        con = dict(_con(spec, fn.name, len(fn.params)))
        assume_true = set()
        if variant is not None:
            con['pre'] = list(con.get('pre', [])) + list(variant.get('pre', []))
            assume_true = set(variant.get('assume_true', []))
        seen_names.add(fn.name)
        entry = ranges.State(DBM())
        bad_spec = []
        for txt in spec.invariant + con.get('pre', []):
            for L in parse_fact(txt):
                R = _resolve(fn, L)
                if R is None:
                    bad_spec.append(txt)
                else:
                    add_fact(entry, R)
        if bad_spec:
            raise AnalysisBroken('%s: contract mentions unknown names: %s' % (fn.qname, bad_spec))
        if entry_extra is not None:
            entry_extra(fn, entry)

        def post_hook(f, st, n, spec=spec):
            if extra_post is not None:
                extra_post(f, st, n)
            # reading an entry of an array with a tabulated invariant:  v = A.coeff(idx) / A[idx] / A(idx)
            ainv = getattr(spec, 'array_inv', None)
            if ainv and n['k'] == 'DeclStmt' and len(n.get('decls', [])) == 1 and 'init' in n['decls'][0]:
                dd = n['decls'][0]
                t_ = sym(f, dd['init'], inline=False)
                arr_, idx_ = None, None
                if isinstance(t_, tuple) and t_[0] in ('coeff', '[]', '()') and len(t_) == 3 and t_[1][0] == 'F' and t_[1][1] in ainv:
                    arr_ = t_[1][1]
                    for y_ in f.walk(dd['init']):
                        if y_['k'] in ('CXXMemberCallExpr', 'CXXOperatorCallExpr') and (y_.get('callee') == 'coeff' or y_.get('op') in ('[]', '()')):
                            a_ = f.call_args(y_)
                            idx_ = ranges.linform(f, a_[-1])
                            break
                if arr_ is not None and idx_ is not None and f.locals[dd['var']]['type'] in zone.INT_TYPES:
                    v_ = ('v', dd['var'])
                    for txt in ainv[arr_]:
                        for L in parse_fact(txt):
                            R = _resolve(f, L, extra={'val': {v_: 1, 1: 0}, 'idx': idx_})
                            if R is not None:
                                add_fact(st, R)
            # value contracts:  T v = callee(..);  /  v = callee(..);
            tgt, call = None, None
            if n['k'] == 'DeclStmt' and len(n.get('decls', [])) == 1 and 'init' in n['decls'][0]:
                c = f.strip(f.nodes[n['decls'][0]['init']])
                if c is not None and c['k'] in ('CXXMemberCallExpr', 'CallExpr'):
                    tgt, call = ('v', n['decls'][0]['var']), c
            elif n['k'] == 'BinaryOperator' and n.get('op') == '=':
                c = f.strip(f.nodes[n['c'][1]])
                v = zone.var_of(f, f.nodes[n['c'][0]])
                if c is not None and v is not None and c['k'] in ('CXXMemberCallExpr', 'CallExpr'):
                    tgt, call = v, c
            elif n['k'] in ('CXXMemberCallExpr', 'CallExpr'):
                call = n
            if call is None or call.get('cls') != spec.cls or not _has(spec, call.get('callee')):
                return
            args = f.call_args(call)
            cands = [g for g in fns.values() if g.name == call['callee'] and len(g.params) == len(args)]
            if not cands:
                return
            g = cands[0]
            callee = _con(spec, g.name, len(g.params))
            if callee is None:
                return
            sub = {}
            for i, pid in enumerate(g.params):
                if i < len(args):
                    sub[g.locals[pid]['name']] = ranges.linform(f, args[i])
            for txt in callee.get('post', []):
                uses_ret = re.search(r'\bret\b', txt) is not None
                if uses_ret != (tgt is not None and n is not call):
                    # value facts are added at the receiving statement, out-parameter facts at the call element
                    if uses_ret or n is not call:
                        continue
                for L in parse_fact(txt):
                    ex = dict(sub)
                    if uses_ret:
                        ex['ret'] = {tgt: 1, 1: 0}
                    R = {1: L.get(1, 0)}
                    ok = True
                    for k, v in L.items():
                        if k == 1 or v == 0:
                            continue
                        if k.startswith('m_'):
                            R[('f', k)] = R.get(('f', k), 0) + v
                        elif k in ex and ex[k] is not None:
                            for kk, vv in ex[k].items():
                                R[kk] = R.get(kk, 0) + v * vv
                        else:
                            ok = False
                    if ok:
                        add_fact(st, {k: v for k, v in R.items() if v != 0 or k == 1})

        # rows() / cols() / size() of an array with a declared extent is that extent (when it is a single variable)
        def extent_value(f, n, spec=spec):
            ob = f.strip(f.call_object(n)) if f.call_object(n) is not None else None
            if ob is not None and ob['k'] == 'DeclRefExpr' and 'var' in ob and ob['var'] in f.params and n['callee'] in ('rows', 'cols') \
                    and f.locals[ob['var']]['name'] in getattr(spec, 'symbolic_params', ()):
                return (('x', '%s.%s' % (f.locals[ob['var']]['name'], n['callee'])), 0)
            fld = f.field_name(ob) if ob is not None else None
            dims = spec.extents.get(fld)
            if dims is None:
                return None
            which = {'rows': 0, 'cols': 1, 'size': 0}[n['callee']]
            if n['callee'] == 'size' and len(dims) != 1:
                return None
            if which >= len(dims):
                return None
            R = _resolve(f, _lin(dims[which]) if isinstance(dims[which], str) else {1: dims[which]})
            if R is None:
                return None
            vs = [(k, v) for k, v in R.items() if k != 1 and v != 0]
            if not vs:
                return ('Z', R.get(1, 0))
            if len(vs) == 1 and vs[0][1] == 1:
                return (vs[0][0], R.get(1, 0))
            return None
        old_hook = zone.EXTENT_VALUE
        zone.EXTENT_VALUE = extent_value
        try:
            rec, OUT = ranges.analyse(fn, entry, post=post_hook)
        except Exception:
            zone.EXTENT_VALUE = old_hook
            raise
        inst = '%s::%s%s' % (spec.cls.replace('Spectra::', ''), fn.name, ('#' + variant['name']) if variant is not None else '')
        problems = []
        notes = []
        # ---- index obligations
        lext = {}
        for (lname, dims) in spec.local_extents.get(fn.name, {}).items():
            lext[lname] = dims
        for (pname, dims) in con.get('ptr', {}).items():
            lext[pname] = dims
        # local arrays constructed with linear sizes:  Matrix M(r, c);  Vector v(n);
        lext_forms = {}
        map_problems = []
        for x in fn.walk():
            if x['k'] == 'DeclStmt':
                for d in x['decls']:
                    if 'var' in d and 'init' in d and fn.locals[d['var']]['type'].startswith(('Eigen::Matrix<', 'Eigen::Array<')):
                        core = fn.strip(fn.nodes[d['init']], explicit_casts=False)
                        if core is not None and core['k'] in ('CXXConstructExpr', 'CXXTemporaryObjectExpr') and not core.get('copy') and not core.get('move'):
                            a_ = [ranges.linform(fn, y) for y in fn.call_args(core) if y['k'] != 'CXXDefaultArgExpr']
                            if a_ and all(y is not None for y in a_) and zone.const_local_stable(fn, d['var']):
                                lext_forms[d['var']] = a_
                    if 'var' in d and 'init' in d and fn.locals[d['var']]['type'].startswith('Eigen::Map<'):
                        # Map over a pointer parameter with a declared (rows, cols) extent: the Map's dimensions must be those
                        core = fn.strip(fn.nodes[d['init']], explicit_casts=False)
                        if core is not None and core['k'] in ('CXXConstructExpr', 'CXXTemporaryObjectExpr'):
                            a_ = [y for y in fn.call_args(core) if y['k'] != 'CXXDefaultArgExpr']
                            p0 = fn.strip(a_[0]) if a_ else None
                            if p0 is not None and p0['k'] == 'DeclRefExpr' and 'var' in p0 and fn.locals[p0['var']]['name'] in con.get('ptr', {}):
                                want = [_resolve(fn, _lin(t)) for t in con['ptr'][fn.locals[p0['var']]['name']]]
                                got = [ranges.linform(fn, y) for y in a_[1:]]
                                if len(want) == len(got) and all(g is not None and w is not None and ranges.lf_sub(g, w) == {1: 0} for g, w in zip(got, want)):
                                    lext_forms[d['var']] = got
                                else:
                                    map_problems.append('%s: Map dimensions differ from the declared extent of %s' % (fn.s(x)[:50], fn.locals[p0['var']]['name']))

        # pointer locals that are the data() of a declared array and are never re-pointed
        ptr_alias = {}
        for x in fn.walk():
            if x['k'] == 'DeclStmt':
                for d in x['decls']:
                    if 'var' in d and 'init' in d and zone_is_ptr(fn.locals[d['var']]['type']):
                        c0 = fn.strip(fn.nodes[d['init']])
                        if c0 is not None and c0['k'] == 'CXXMemberCallExpr' and c0.get('callee') == 'data':
                            fld = fn.field_name(fn.strip(fn.call_object(c0)))
                            if fld in spec.extents and len(spec.extents[fld]) == 1:
                                ptr_alias[d['var']] = fld
                            else:
                                # data() of a parameter whose extent is declared by the contract (a stated precondition)
                                o_ = fn.strip(fn.call_object(c0))
                                if o_ is not None and o_['k'] == 'DeclRefExpr' and o_.get('var') in fn.params and \
                                        len(lext.get(fn.locals[o_['var']]['name'], [])) == 1:
                                    ptr_alias[d['var']] = '%local:' + fn.locals[o_['var']]['name']
        for x in fn.walk():
            if x['k'] in ('BinaryOperator', 'CompoundAssignOperator', 'UnaryOperator') and x.get('op') in ('=', '+=', '-=', '++', '--'):
                t = fn.strip(fn.nodes[x['c'][0]])
                if t is not None and t['k'] == 'DeclRefExpr' and t.get('var') in ptr_alias:
                    del ptr_alias[t['var']]

        def ext_of(b, fn=fn):
            bs = fn.strip(b)
            if bs is None:
                return None
            f = fn.field_name(bs)
            if f is None and bs['k'] == 'DeclRefExpr' and bs.get('var') in ptr_alias:
                f = ptr_alias[bs['var']]
            dims = spec.extents.get(f)
            if dims is None and isinstance(f, str) and f.startswith('%local:'):
                dims = lext.get(f[7:])
            if dims is None and bs['k'] == 'DeclRefExpr' and 'var' in bs:
                if bs['var'] in lext_forms:
                    return lext_forms[bs['var']]
                dims = lext.get(fn.locals[bs['var']]['name'])
            if dims is None:
                return None
            out = []
            for dtxt in dims:
                R = _resolve(fn, _lin(dtxt) if isinstance(dtxt, str) else {1: dtxt})
                if R is None:
                    return None
                out.append(R)
            return out
        def ext_of_ptr(a, fn=fn):
            """extent of the array a pointer argument points into: X.data() or a never re-pointed local alias of it"""
            a0 = fn.strip(a)
            if a0 is None:
                return None
            if a0['k'] == 'CXXMemberCallExpr' and a0.get('callee') == 'data':
                return ext_of(fn.call_object(a0))
            if a0['k'] == 'DeclRefExpr' and a0.get('var') in ptr_alias:
                return ext_of(a0)
            return None
        nsite, probs = check_sites(fn, rec, ext_of)
        if extra_sites is not None:
            n2, p2 = extra_sites(fn, rec)
            nsite += n2
            probs = probs + p2
        total_sites += nsite
        problems += probs + map_problems
        # ---- array invariants: every write establishes them
        ainv = getattr(spec, 'array_inv', None)
        if ainv:
            for x in fn.walk():
                if not (x['k'] in ('BinaryOperator', 'CXXOperatorCallExpr') and x.get('op') == '='):
                    continue
                ops = fn.call_args(x) if x['k'] == 'CXXOperatorCallExpr' else [fn.nodes[c_] for c_ in x['c']]
                lhs = fn.strip(ops[0])
                arr_, idxn = None, None
                if lhs is not None and lhs['k'] == 'CXXMemberCallExpr' and lhs.get('callee') in ('coeffRef',) and fn.field_name(fn.strip(fn.call_object(lhs))) in ainv:
                    arr_, idxn = fn.field_name(fn.strip(fn.call_object(lhs))), fn.call_args(lhs)[-1]
                elif lhs is not None and lhs['k'] == 'CXXOperatorCallExpr' and lhs.get('op') in ('[]', '()') and fn.field_name(fn.strip(fn.call_args(lhs)[0])) in ainv:
                    arr_, idxn = fn.field_name(fn.strip(fn.call_args(lhs)[0])), fn.call_args(lhs)[-1]
                elif lhs is not None and lhs['k'] == 'ArraySubscriptExpr':
                    b_ = fn.strip(fn.nodes[lhs['c'][0]])
                    if b_ is not None and b_['k'] == 'DeclRefExpr' and b_.get('var') in ptr_alias and ptr_alias[b_['var']] in ainv:
                        arr_, idxn = ptr_alias[b_['var']], fn.nodes[lhs['c'][1]]
                if arr_ is None:
                    continue
                z = rec.get(fn.pos_of(x))
                if z is None:
                    continue
                nsite_inv = 1
                idxf = ranges.linform(fn, idxn)
                vals = []
                rv = fn.strip(ops[1])
                if rv is not None and rv['k'] == 'ConditionalOperator':
                    ctxt = show(sym(fn, rv['c'][0], inline=False))
                    if ctxt in assume_true:
                        vals = [fn.nodes[rv['c'][1]]]
                    else:
                        vals = [fn.nodes[rv['c'][1]], fn.nodes[rv['c'][2]]]
                else:
                    vals = [ops[1]]
                for vn in vals:
                    vf = ranges.linform(fn, vn)
                    for txt in ainv[arr_]:
                        for L in parse_fact(txt):
                            R = _resolve(fn, L, extra={'val': vf, 'idx': idxf})
                            if R is None or not ranges.prove_nonpos(z, R):
                                problems.append('`%s`: the value %s does not establish the invariant `%s` of %s' % (fn.s(x['id'])[:50], fn.s(vn['id'])[:12], txt, arr_))
        # ---- call obligations
        ncall = 0
        for c in fn.walk():
            if c['k'] not in ('CXXMemberCallExpr', 'CallExpr'):
                continue
            if c.get('cls') == spec.cls and _has(spec, c.get('callee')):
                args = fn.call_args(c)
                cands = [g for g in fns.values() if g.name == c['callee'] and len(g.params) == len(args)]
                if not cands:
                    continue
                g = cands[0]
                gcon = _con(spec, g.name, len(g.params))
                z = rec.get(fn.pos_of(c))
                if z is None or gcon is None:
                    continue          # unreachable in the analysis
                if fn.name in gcon.get('callsite_assumed', {}):
                    notes.append('precondition of %s at its call in %s: %s' % (g.name, fn.name, gcon['callsite_assumed'][fn.name]))
                    continue
                ncall += 1
                sub = {g.locals[pid]['name']: (ranges.linform(fn, args[i]) if i < len(args) else None) for i, pid in enumerate(g.params)}
                for i, pid in enumerate(g.params):
                    if i < len(args):
                        b_ = None
                        for y_ in fn.walk(args[i]['id']):
                            if y_['k'] == 'CXXMemberCallExpr' and y_.get('callee') == 'block':
                                b_ = y_
                                break
                        if b_ is not None and b_['k'] == 'CXXMemberCallExpr' and b_.get('callee') == 'block' and len(fn.call_args(b_)) == 4:
                            ba = fn.call_args(b_)
                            sub['rows_' + g.locals[pid]['name']] = ranges.linform(fn, ba[2])
                            sub['cols_' + g.locals[pid]['name']] = ranges.linform(fn, ba[3])
                for pname, dims in gcon.get('ptr', {}).items():
                    i_ = [g.locals[pid]['name'] for pid in g.params].index(pname)
                    act = ext_of_ptr(args[i_])
                    want = [_resolve(fn, _lin(t), extra=sub) for t in dims]
                    if act is None or len(act) != len(want) or any(w is None for w in want):
                        problems.append('call %s: extent of the array behind `%s` is unknown' % (fn.s(c)[:50], pname))
                    else:
                        for w, a0 in zip(want, act):
                            eq = len(want) > 1
                            d_ = ranges.lf_sub(w, a0)
                            if (eq and d_ != {1: 0}) or (not eq and not ranges.prove_nonpos(z, d_)):
                                problems.append('call %s: the array behind `%s` is smaller than the callee assumes (%s)' % (fn.s(c)[:50], pname, dims))
                for pname, rowtxt in gcon.get('ptr_origin', {}).items():
                    i_ = [g.locals[pid]['name'] for pid in g.params].index(pname)
                    pp = dense_ptr_of(fn, args[i_]) if dense_ptr_of is not None else None
                    want = _resolve(fn, _lin(rowtxt), extra=sub)
                    if pp is None or want is None:
                        problems.append('call %s: the pointer handed to `%s` is not modelled' % (fn.s(c)[:50], pname))
                    else:
                        d1 = ranges.lf_sub(pp[2], want)
                        if not (ranges.prove_nonpos(z, d1) and ranges.prove_nonpos(z, {k: -v for k, v in d1.items()})):
                            problems.append('call %s: `%s` does not point at entry %s of the vector' % (fn.s(c)[:50], pname, rowtxt))
                vpre = []
                for var_ in gcon.get('variants', []):
                    if var_['when'](fn, args):
                        vpre = list(var_.get('pre', []))
                        break
                for txt in list(gcon.get('pre', [])) + vpre:
                    for L in parse_fact(txt):
                        R = _resolve(fn, L, extra=sub)
                        if R is None or not ranges.prove_nonpos(z, R):
                            problems.append('call %s: cannot prove the precondition `%s`' % (fn.s(c)[:50], txt))
            wkey = '%s/%d' % (c.get('callee'), len(fn.call_args(c))) if c.get('callee') else None
            if wkey in spec.windows and (c.get('cls') == spec.cls or c.get('cls') is None):
                z = rec.get(fn.pos_of(c))
                if z is not None:
                    ncall += 1
                    problems += _window_call(fn, z, c, spec, ext_of, key=wkey)
            elif c.get('callee') in spec.windows and (c.get('cls') == spec.cls or c.get('cls') is None):
                z = rec.get(fn.pos_of(c))
                if z is None:
                    continue
                ncall += 1
                problems += _window_call(fn, z, c, spec, ext_of)
        # ---- exit obligations
        posts = con.get('post', [])
        if posts:
            rets = [x for x in fn.walk() if x['k'] == 'ReturnStmt']
            exit_id = fn.cfg['exit']
            for txt in posts:
                uses_ret = re.search(r'\bret\b', txt) is not None
                for L in parse_fact(txt):
                    if uses_ret:
                        for r in rets:
                            z = rec.get(fn.pos_of(r))
                            if z is None:
                                continue
                            val = ranges.linform(fn, fn.nodes[r['value']]) if r.get('value', -1) is not None and r.get('value', -1) >= 0 else None
                            R = _resolve(fn, L, extra={'ret': val})
                            if R is None or not ranges.prove_nonpos(z, R):
                                problems.append('return %s: cannot prove the postcondition `%s`' % (fn.s(r)[:40], txt))
                    else:
                        R = _resolve(fn, L)
                        for p in fn.preds().get(exit_id, []):
                            z = OUT.get(p)
                            if z is None or fn.blocks[p].get('throws'):
                                continue
                            if R is None or not ranges.prove_nonpos(z, R):
                                problems.append('exit: cannot prove the postcondition `%s`' % txt)
        zone.EXTENT_VALUE = old_hook
        ctx.check(not problems, rule, inst, fn.qname,
                  '%d index / view sites inside their arrays, %d call preconditions, %d postconditions, for all sizes under `%s`' %
                  (nsite, ncall, len(posts), '; '.join(con.get('pre', [])) or 'true') + ('; discharged elsewhere: ' + '; '.join(notes) if notes else '')
                  if not problems else '; '.join(sorted(set(problems))[:5]))
    missing = set(k.split('/')[0] for k in spec.members) - seen_names
    if missing:
        raise AnalysisBroken('%s: contracted members not instantiated: %s' % (spec.cls, sorted(missing)))
    if total_sites < min_sites:
        raise AnalysisBroken('%s: only %d index sites analysed (expected >= %d)' % (spec.cls, total_sites, min_sites))
    return total_sites


def _window_call(fn, z, c, spec, ext_of, key=None):
    """Kernel taking a raw pointer to element (r, c0) of a column-major matrix plus a stride: the (rows x cols) window starting
    there must lie inside the matrix and the stride must be the matrix's column stride."""
    w = spec.windows[key or c['callee']]
    pname, rows, cols, stride = w['ptr'], w['rows'], w['cols'], w.get('stride')
    args = fn.call_args(c)
    amap = dict(zip(w['params'], args))
    probs = []
    what = fn.s(c)[:60]
    p = fn.strip(amap[pname])
    if not (p['k'] == 'UnaryOperator' and p.get('op') == '&'):
        return ['%s: pointer argument is not the address of a matrix element' % what]
    el = fn.strip(fn.nodes[p['c'][0]])
    if el['k'] == 'CXXMemberCallExpr' and el.get('callee') in ('coeffRef', 'coeff'):
        base, idx = fn.call_object(el), fn.call_args(el)
    elif el['k'] == 'CXXOperatorCallExpr' and el.get('op') == '()':
        a = fn.call_args(el)
        base, idx = a[0], a[1:]
    else:
        return ['%s: pointer argument is not the address of a matrix element' % what]
    e = ext_of(base)
    if e is None or len(e) != 2 or len(idx) != 2:
        return ['%s: matrix of unknown extent' % what]
    r0, c0 = ranges.linform(fn, idx[0]), ranges.linform(fn, idx[1])
    if r0 is None or c0 is None:
        return ['%s: non-linear window origin' % what]

    def forms(spec_dim):
        if isinstance(spec_dim, int):
            return [{1: spec_dim}]
        return ranges.upper_forms(fn, amap[spec_dim]) or []
    for (o, dim, ee, nm) in ((r0, rows, e[0], 'rows'), (c0, cols, e[1], 'columns')):
        if not ranges.prove_nonpos(z, {**{k: -v for k, v in o.items() if k != 1}, 1: -o.get(1, 0)}):
            probs.append('%s: cannot prove window origin >= 0 (%s)' % (what, nm))
        ok = False
        for U in forms(dim):
            tot = dict(o)
            for k_, v_ in U.items():
                tot[k_] = tot.get(k_, 0) + v_
            if ranges.prove_nonpos(z, ranges.lf_sub(tot, ee)):
                ok = True
        if not ok:
            probs.append('%s: the %s-window may extend past the last of the %s' % (what, dim if isinstance(dim, int) else fn.s(amap[dim]), nm))
    if stride is None:
        return probs
    st = ranges.linform(fn, amap[stride])
    if st is None or ranges.lf_sub(st, e[0]) != {1: 0} and {k: v for k, v in ranges.lf_sub(st, e[0]).items() if v != 0} != {}:
        probs.append('%s: stride %s is not the column stride of the matrix' % (what, fn.s(amap[stride])))
    return probs


# ---------------------------------------------------------------------------------------------------------------------
# Packed lower-triangular storage (Bunch-Kaufman factorization): column j of an n x n matrix holds rows j..n-1 contiguously,
# columns follow each other.  A pointer into the storage is modelled as (column, row): `column` is fixed per pointer variable
# (tabulated), `row` is an integer zone variable.  The start of column c+1 is the one-past-the-end of column c: (c, n).
# ---------------------------------------------------------------------------------------------------------------------
class Packed:
    def __init__(self, cls, n_field, coeff='coeff', diag='diag_coeff', colptr='col_pointer', ptr_cols=None):
        self.cls, self.n, self.coeff, self.diag, self.colptr = cls, ('f', n_field), coeff, diag, colptr
        self.ptr_cols = ptr_cols or {}        # member -> {pointer local name: column text}

    def cols_of(self, fn):
        out = {}
        for nm, txt in self.ptr_cols.get(fn.name, {}).items():
            for vid, lv in fn.locals.items():
                if lv['name'] == nm and zone_is_ptr(lv['type']):
                    out[vid] = _resolve(fn, _lin(txt), extra=self._locals(fn))
        return out

    def _locals(self, fn):
        # column texts may name parameters only (resolved by _resolve) -- nothing extra
        return None

    def ptr_of(self, fn, node, cols):
        """(column form, row form) of a pointer-valued expression, or None."""
        n = fn.strip(node)
        if n is None:
            return None
        k = n['k']
        if k == 'DeclRefExpr' and n.get('var') in cols:
            return (cols[n['var']], {('v', n['var']): 1, 1: 0})
        if k == 'CXXMemberCallExpr' and n.get('callee') == self.colptr:
            c = ranges.linform(fn, fn.call_args(n)[0])
            return None if c is None else (c, dict(c))
        if k == 'UnaryOperator' and n.get('op') == '&':
            e = fn.strip(fn.nodes[n['c'][0]])
            if e is not None and e['k'] == 'CXXMemberCallExpr' and e.get('callee') == self.coeff:
                a = fn.call_args(e)
                i, j = ranges.linform(fn, a[0]), ranges.linform(fn, a[1])
                return None if i is None or j is None else (j, i)
            if e is not None and e['k'] == 'CXXMemberCallExpr' and e.get('callee') == self.diag:
                i = ranges.linform(fn, fn.call_args(e)[0])
                return None if i is None else (i, dict(i))
            return None
        if k == 'BinaryOperator' and n.get('op') in ('+', '-'):
            l, r = fn.nodes[n['c'][0]], fn.nodes[n['c'][1]]
            pl = self.ptr_of(fn, l, cols)
            e = ranges.linform(fn, r)
            if pl is not None and e is not None:
                sg = 1 if n['op'] == '+' else -1
                row = dict(pl[1])
                for kk, vv in e.items():
                    row[kk] = row.get(kk, 0) + sg * vv
                return (pl[0], row)
        return None

    def normalise(self, cr, col):
        """row of pointer (c, r) expressed in column `col`: same column, or the start of the next column (= row n of `col`)."""
        if cr is None:
            return None
        c, r = cr
        d = ranges.lf_sub(c, col)
        if {k: v for k, v in d.items() if v != 0} == {}:
            return r
        if {k: v for k, v in d.items() if v != 0} == {1: 1} and {k: v for k, v in ranges.lf_sub(r, c).items() if v != 0} == {}:
            return {self.n: 1, 1: 0}
        return None


def _table_not_stale(ctx, spec, ptrs, unmodelled=None):
    """every pointer local named in a table exists (as a pointer) in some overload of its member, and every pointer local of
    a contracted member is either in the table or declared unmodelled with a reason: a renamed, removed or new pointer must not
    silently drop its sites from the proof"""
    from .zone import zone_is_ptr as _isp
    unmodelled = unmodelled or {}
    cls = spec.cls
    members = set(k.split('/')[0] for k in spec.members) | set(ptrs)
    for member in sorted(members):
        names = ptrs.get(member, {})
        fns = [f for f in ctx.F.concrete() if f.cls == cls and f.name == member and f.cfg]
        if not fns:
            if member in ptrs:
                raise AnalysisBroken('%s::%s (pointer table) is not instantiated' % (cls, member))
            continue
        for nm in names:
            if not any(lv['name'] == nm and _isp(lv['type']) for f in fns for lv in f.locals.values()):
                raise AnalysisBroken('%s::%s: the pointer table names `%s`, which is not a pointer variable of that member any more' % (cls, member, nm))
        for f in fns:
            for lv in f.locals.values():
                if _isp(lv['type']) and lv['name'] not in names and lv['name'] not in unmodelled.get(member, {}) and \
                        any(t in lv['type'] for t in ('double', 'float', 'complex', 'unsigned char')):
                    raise AnalysisBroken('%s::%s: pointer variable `%s` is neither in the pointer table nor declared unmodelled: its accesses would not be checked' % (cls, member, lv['name']))


def verify_packed(ctx, spec, pk, check_sites, rule):
    """contracts.verify plus the obligations of the packed pointer model (see Packed)."""
    _table_not_stale(ctx, spec, pk.ptr_cols, getattr(pk, 'unmodelled', None))
    N = {pk.n: 1, 1: 0}
    fns = {}
    for fn in ctx.F.concrete():
        if fn.cls == spec.cls and fn.cfg and not fn.d.get('ctor') and fn.name in spec.members:
            fns.setdefault(fn.mangled, fn)
    old_pv = zone.PTR_VARS
    zone.PTR_VARS = lambda f: set(pk.cols_of(f))
    extra_post = {}

    def ptr_post(f, st, n):
        cols = pk.cols_of(f)
        # pointer declarations / assignments: set the row variable
        tgt, rhs = None, None
        if n['k'] == 'DeclStmt':
            for d in n.get('decls', []):
                if d.get('var') in cols and 'init' in d:
                    tgt, rhs = d['var'], f.nodes[d['init']]
        elif n['k'] == 'BinaryOperator' and n.get('op') == '=':
            l = f.strip(f.nodes[n['c'][0]])
            if l is not None and l['k'] == 'DeclRefExpr' and l.get('var') in cols:
                tgt, rhs = l['var'], f.nodes[n['c'][1]]
        if tgt is not None:
            row = pk.normalise(pk.ptr_of(f, rhs, cols), cols[tgt])
            v = ('v', tgt)
            st.d.forget(v)
            if row is not None:
                vs = [(k, c) for k, c in row.items() if k != 1 and c != 0]
                if not vs:
                    st.d.assign_var_plus(v, 'Z', row.get(1, 0))
                elif len(vs) == 1 and vs[0][1] == 1 and vs[0][0] != v:
                    st.d.assign_var_plus(v, vs[0][0], row.get(1, 0))
                else:
                    up = dict(row)
                    up[v] = up.get(v, 0) - 1
                    add_fact(st, {k: -c for k, c in up.items()})       # v - row <= 0
                    add_fact(st, up)                                    # row - v <= 0
            return
        # integer assignments whose right-hand side reduces (const locals inlined, pointer differences cancelled) to var + c
        if n['k'] == 'BinaryOperator' and n.get('op') == '=':
            v = zone.var_of(f, f.nodes[n['c'][0]])
            if v is not None and v[1] not in cols and zone.linear(f, f.nodes[n['c'][1]]) is None:
                L = _ptr_linform(f, f.nodes[n['c'][1]], pk, cols)
                if L is not None:
                    vs = [(k, c) for k, c in L.items() if k != 1 and c != 0]
                    if len(vs) == 1 and vs[0][1] == 1 and vs[0][0] != v:
                        st.d.forget(v)
                        st.d.assign_var_plus(v, vs[0][0], L.get(1, 0))
    problems_by_fn = {}
    try:
        # the generic part (index sites of declared arrays, call pre / postconditions) with the pointer rows live
        total = verify(ctx, spec, check_sites, rule, extra_post=ptr_post, collect=problems_by_fn, extra_sites=packed_sites(pk))
    finally:
        zone.PTR_VARS = old_pv
    return total


def _ptr_linform(fn, node, pk, cols):
    """linear form of an integer expression that may contain differences of packed pointers of one column"""
    n = fn.strip(node)
    if n is None:
        return None
    if n['k'] == 'BinaryOperator' and n.get('op') in ('+', '-'):
        l, r = fn.nodes[n['c'][0]], fn.nodes[n['c'][1]]
        pl, pr = pk.ptr_of(fn, l, cols), pk.ptr_of(fn, r, cols)
        if pl is not None and pr is not None and n['op'] == '-':
            rr = pk.normalise(pr, pl[0])
            if rr is None:
                return None
            return _const_inline(fn, ranges.lf_sub(pl[1], rr), pk, cols)
        a, b = _ptr_linform(fn, l, pk, cols), _ptr_linform(fn, r, pk, cols)
        if a is None or b is None:
            return None
        sg = 1 if n['op'] == '+' else -1
        out = dict(a)
        for k, v in b.items():
            out[k] = out.get(k, 0) + sg * v
        return {k: v for k, v in out.items() if v != 0 or k == 1}
    L = ranges.linform(fn, n)
    return None if L is None else _const_inline(fn, L, pk, cols)


def _const_inline(fn, L, pk, cols):
    """replace const pointer locals (never re-pointed) by the row of their initialiser"""
    out = {1: L.get(1, 0)}
    for k, v in L.items():
        if k == 1:
            continue
        if isinstance(k, tuple) and k[0] == 'v' and k[1] in cols and fn.locals[k[1]]['type'].startswith('const ') is not None:
            lv = fn.locals[k[1]]
            init = None
            writes = 0
            for x in fn.walk():
                if x['k'] == 'DeclStmt':
                    for d in x.get('decls', []):
                        if d.get('var') == k[1] and 'init' in d:
                            init = fn.nodes[d['init']]
                if x['k'] in ('BinaryOperator', 'CompoundAssignOperator', 'UnaryOperator') and x.get('op') in ('=', '+=', '-=', '++', '--'):
                    t = fn.strip(fn.nodes[x['c'][0]])
                    if t is not None and t['k'] == 'DeclRefExpr' and t.get('var') == k[1]:
                        writes += 1
            if init is not None and writes == 0:
                row = pk.normalise(pk.ptr_of(fn, init, {kk: vv for kk, vv in cols.items() if kk != k[1]}), cols[k[1]])
                if row is not None and not any(isinstance(kk, tuple) and kk[0] == 'v' and kk[1] in cols for kk in row):
                    for kk, vv in row.items():
                        out[kk] = out.get(kk, 0) + v * vv
                    continue
        out[k] = out.get(k, 0) + v
    return {k: v for k, v in out.items() if v != 0 or k == 1}


def packed_sites(pk):
    def neg(L):
        return {k: -v for k, v in L.items()}

    def plus(L, c):
        r = dict(L)
        r[1] = r.get(1, 0) + c
        return r

    def run(fn, rec):
        cols = pk.cols_of(fn)
        N = {pk.n: 1, 1: 0}
        nsite = 0
        probs = []

        def need(z, L, what, txt):
            if L is None or not ranges.prove_nonpos(z, L):
                probs.append('%s: cannot prove %s' % (what, txt))

        def address_only(x):
            cur = x
            par = fn.node(fn.parent.get(cur['id'], -1))
            while par is not None and par['k'] in ('ImplicitCastExpr', 'ParenExpr', 'MaterializeTemporaryExpr', 'ExprWithCleanups'):
                cur = par
                par = fn.node(fn.parent.get(cur['id'], -1))
            return par is not None and par['k'] == 'UnaryOperator' and par.get('op') == '&'
        for x in fn.walk():
            z = rec.get(fn.pos_of(x))
            if z is None:
                continue
            what = fn.s(x['id'])[:50]
            if x['k'] == 'CXXMemberCallExpr' and x.get('cls') == pk.cls and x.get('callee') == pk.coeff and len(fn.call_args(x)) == 2:
                a = fn.call_args(x)
                i, j = ranges.linform(fn, a[0]), ranges.linform(fn, a[1])
                nsite += 1
                if i is None or j is None:
                    probs.append('%s: non-linear packed index' % what)
                    continue
                ao = address_only(x)
                need(z, neg(j), what, 'column >= 0')
                need(z, ranges.lf_sub(j, i), what, 'row >= column (the storage holds the lower triangle only)')
                need(z, plus(ranges.lf_sub(i, N), 0 if ao else 1), what, 'row <= n' if ao else 'row <= n - 1')
                need(z, plus(ranges.lf_sub(j, N), 1), what, 'column <= n - 1')
            elif x['k'] == 'CXXMemberCallExpr' and x.get('cls') == pk.cls and x.get('callee') in (pk.diag, pk.colptr) and len(fn.call_args(x)) == 1:
                i = ranges.linform(fn, fn.call_args(x)[0])
                nsite += 1
                if i is None:
                    probs.append('%s: non-linear packed index' % what)
                    continue
                need(z, neg(i), what, 'index >= 0')
                need(z, plus(ranges.lf_sub(i, N), 1), what, 'index <= n - 1')
            elif (x['k'] == 'UnaryOperator' and x.get('op') == '*') or x['k'] == 'ArraySubscriptExpr':
                base = fn.nodes[x['c'][0]]
                cr = pk.ptr_of(fn, base, cols)
                if cr is None:
                    continue
                nsite += 1
                c, r = cr
                if x['k'] == 'ArraySubscriptExpr':
                    e = ranges.linform(fn, fn.nodes[x['c'][1]])
                    if e is None:
                        probs.append('%s: non-linear subscript' % what)
                        continue
                    r = dict(r)
                    for k_, v_ in e.items():
                        r[k_] = r.get(k_, 0) + v_
                need(z, neg(c), what, 'column >= 0')
                need(z, ranges.lf_sub(c, r), what, 'the element is not above the start of its column')
                need(z, plus(ranges.lf_sub(r, N), 1), what, 'the element is not past the end of its column')
            elif x['k'] in ('CXXConstructExpr', 'CXXTemporaryObjectExpr') and x.get('ctor_of') == 'Eigen::Map':
                a = [y for y in fn.call_args(x) if y['k'] != 'CXXDefaultArgExpr']
                if len(a) < 2:
                    continue
                cr = pk.ptr_of(fn, a[0], cols)
                if cr is None:
                    continue
                nsite += 1
                c, r = cr
                ln = ranges.linform(fn, a[1])
                if ln is None:
                    probs.append('%s: non-linear view length' % what)
                    continue
                need(z, neg(c), what, 'column >= 0')
                need(z, ranges.lf_sub(c, r), what, 'view starts inside its column')
                need(z, neg(ln), what, 'length >= 0')
                tot = dict(r)
                for k_, v_ in ln.items():
                    tot[k_] = tot.get(k_, 0) + v_
                need(z, ranges.lf_sub(tot, N), what, 'view ends inside its column (row + length <= n)')
            elif x['k'] == 'CallExpr' and x.get('callee') in ('copy', 'swap_ranges') and len(fn.call_args(x)) == 3:
                a = fn.call_args(x)
                p1, p2, p3 = (pk.ptr_of(fn, y, cols) for y in a)
                if p1 is None and p3 is None:
                    continue
                nsite += 1
                ln = None
                if p1 is not None and p2 is not None:
                    r2 = pk.normalise(p2, p1[0])
                    if r2 is not None:
                        ln = ranges.lf_sub(r2, p1[1])
                        need(z, ranges.lf_sub(p1[0], p1[1]), what, 'source range starts inside its column')
                        need(z, ranges.lf_sub(r2, N), what, 'source range ends inside its column')
                else:
                    # first, first + L
                    t1, t2 = sym(fn, a[0]), sym(fn, a[1])
                    if isinstance(t2, tuple) and t2[0] == '+' and len(t2) == 3 and t1 in t2[1:]:
                        other = [y for y in fn.walk(a[1]['id']) if y['k'] == 'BinaryOperator' and y.get('op') == '+']
                        if other:
                            ops = [fn.nodes[c_] for c_ in other[0]['c']]
                            cand = [ranges.linform(fn, o) for o in ops if ranges.linform(fn, o) is not None]
                            ln = cand[0] if cand else None
                if ln is None:
                    probs.append('%s: range length not recognised' % what)
                    continue
                need(z, neg(ln), what, 'range length >= 0')
                if p3 is not None:
                    tot = dict(p3[1])
                    for k_, v_ in ln.items():
                        tot[k_] = tot.get(k_, 0) + v_
                    need(z, ranges.lf_sub(p3[0], p3[1]), what, 'destination starts inside its column')
                    need(z, ranges.lf_sub(tot, N), what, 'destination range ends inside its column')
        return nsite, probs
    return run


def verify_dense(ctx, spec, dense, check_sites, rule, min_sites=0):
    """contracts.verify plus the dense pointer model (rules/densemodel.py)."""
    def resolve(fn, txt):
        if isinstance(txt, int):
            return {1: txt}
        return _resolve(fn, _lin(txt))
    old_pv, old_ps, old_pa = zone.PTR_VARS, zone.PTR_STEP, zone.PTR_ASSUME
    zone.PTR_VARS = lambda f: set(dense.table(f, resolve))
    zone.PTR_STEP = dense.make_step(resolve)
    zone.PTR_ASSUME = dense.make_assume(resolve)

    def entry_extra(fn, st):
        # pointer PARAMETERS of the table start at the origin of their window
        po = getattr(dense, 'param_origin', {}).get(fn.name, {})
        for vid, arr in dense.table(fn, resolve).items():
            if vid in fn.params:
                nm = fn.locals[vid]['name']
                st.d.assign_var_plus(('v', vid), 'Z', 0)
                st.d.assign_var_plus(('pc', vid), 'Z', 0)
                if nm in po:
                    for var_, txt in ((('pc', vid), po[nm][0]), (('v', vid), po[nm][1])):
                        f_ = resolve(fn, txt if not txt.isdigit() else int(txt))
                        vs = [(k, c) for k, c in (f_ or {}).items() if k != 1 and c != 0]
                        if f_ is not None and not vs:
                            st.d.assign_var_plus(var_, 'Z', f_.get(1, 0))
                        elif f_ is not None and len(vs) == 1 and vs[0][1] == 1:
                            st.d.assign_var_plus(var_, vs[0][0], f_.get(1, 0))
    _table_not_stale(ctx, spec, dense.ptrs, getattr(dense, 'unmodelled', None))
    try:
        return verify(ctx, spec, check_sites, rule, min_sites=min_sites, extra_sites=dense.sites(resolve), entry_extra=entry_extra,
                      dense_ptr_of=lambda f, node: dense.ptr_of(f, node, resolve))
    finally:
        zone.PTR_VARS, zone.PTR_STEP, zone.PTR_ASSUME = old_pv, old_ps, old_pa
