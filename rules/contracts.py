"""Modular (assume / guarantee) index-range verification of the dense kernels with the zone engine.

Each member in a CONTRACTS table has a precondition and a postcondition written as linear inequalities over its parameters,
the fields of the object and `ret`.  For every instantiated member:
  * its body is analysed from (class invariant + precondition); every element access, view and sub-block of an array with a
    declared extent must be inside the array in the state holding at that point              (index obligations)
  * at every call of a contracted member the caller's state must imply the callee's precondition with the actual arguments
    substituted                                                                               (call obligations)
  * at every return (value contracts) / normal exit (out-parameter contracts) the postcondition must hold     (exit obligations)
  * after a call the postcondition is assumed for the receiving variable / out-argument
Nothing is executed; a contract that does not hold is reported with the member, the site and the inequality that fails."""
import re
from .facts import AnalysisBroken
from . import ranges, zone
from .zone import DBM
from .sym import sym, show


def parse_fact(txt):
    """'a + 2 <= b - c'  ->  [({name: coef, 1: const})]  each meaning  L <= 0.  Operators: <=, <, >=, >, ==."""
    m = re.match(r'^(.*?)(<=|>=|==|<|>)(.*)$', txt)
    if not m:
        raise ValueError(txt)
    l, op, r = _lin(m.group(1)), m.group(2), _lin(m.group(3))
    lr = _sub(l, r)
    rl = _sub(r, l)
    if op == '<=':
        return [lr]
    if op == '<':
        return [_addc(lr, 1)]
    if op == '>=':
        return [rl]
    if op == '>':
        return [_addc(rl, 1)]
    return [lr, rl]


def _lin(s):
    out = {1: 0}
    for sg, coef, name in re.findall(r'([+-]?)\s*(\d+)?\s*\*?\s*([A-Za-z_][A-Za-z_0-9]*)?', s):
        if not coef and not name:
            continue
        c = int(coef) if coef else 1
        if sg == '-':
            c = -c
        key = name if name else 1
        out[key] = out.get(key, 0) + c
    return out


def _sub(a, b):
    r = dict(a)
    for k, v in b.items():
        r[k] = r.get(k, 0) - v
    return r


def _addc(a, c):
    r = dict(a)
    r[1] = r.get(1, 0) + c
    return r


def _resolve(fn, L, extra=None):
    """names -> zone variables of fn (parameters / locals by name, fields m_*); extra: {name: linear form dict}"""
    out = {1: L.get(1, 0)}
    for k, v in L.items():
        if k == 1 or v == 0:
            continue
        if extra and k in extra:
            e = extra[k]
            if e is None:
                return None
            for kk, vv in e.items():
                out[kk] = out.get(kk, 0) + v * vv
            continue
        if k.startswith('m_'):
            out[('f', k)] = out.get(('f', k), 0) + v
            continue
        ids = [i for i in fn.params if fn.locals[i]['name'] == k]
        if not ids:
            return None
        out[('v', ids[0])] = out.get(('v', ids[0]), 0) + v
    return {k: v for k, v in out.items() if v != 0 or k == 1}


def add_fact(st, L):
    """assume L <= 0 in State st (two-variable unit facts go to the zone, others to the general fact set)"""
    vs = [(k, v) for k, v in L.items() if k != 1 and v != 0]
    c = L.get(1, 0)
    if len(vs) == 0:
        return
    if len(vs) == 1 and abs(vs[0][1]) == 1:
        (x, a), = vs
        if a == 1:
            st.d.add(x, 'Z', -c)
        else:
            st.d.add('Z', x, -c)
        return
    if len(vs) == 2 and sorted(a for _, a in vs) == [-1, 1]:
        x = [k for k, a in vs if a == 1][0]
        y = [k for k, a in vs if a == -1][0]
        st.d.add(x, y, -c)
        return
    st.facts = st.facts | frozenset([frozenset(L.items())])


class Spec:
    def __init__(self, cls, invariant, extents, members, windows=None, local_extents=None):
        self.cls = cls
        self.invariant = invariant          # [fact]
        self.extents = extents              # field -> [linear form over field names / ints] per dimension
        self.members = members              # name -> {'pre': [...], 'post': [...]}
        self.windows = windows or {}        # kernel name -> (pointer param, rows, cols, stride param) : forms over the kernel's params
        self.local_extents = local_extents or {}


def _callee_key(n):
    return (n.get('cls'), n.get('callee'))


def verify(ctx, spec, check_sites, rule, min_sites=0):
    """check_sites(fn, rec, ext_of) -> (n, problems) is the site checker of C13 (shared)."""
    F = ctx.F
    fns = {}
    for fn in F.concrete():
        if fn.cls == spec.cls and fn.cfg and not fn.d.get('ctor') and fn.name in spec.members:
            fns.setdefault(fn.mangled, fn)
    if not fns:
        raise AnalysisBroken('%s: no contracted member is instantiated' % spec.cls)
    total_sites = 0
    seen_names = set()
    for fn in fns.values():
        con = spec.members[fn.name]
        seen_names.add(fn.name)
        entry = ranges.State(DBM())
        bad_spec = []
        for txt in spec.invariant + con.get('pre', []):
            for L in parse_fact(txt):
                R = _resolve(fn, L)
                if R is None:
                    bad_spec.append(txt)
                else:
                    add_fact(entry, R)
        if bad_spec:
            raise AnalysisBroken('%s: contract mentions unknown names: %s' % (fn.qname, bad_spec))

        def post_hook(f, st, n, spec=spec):
            # value contracts:  T v = callee(..);  /  v = callee(..);
            tgt, call = None, None
            if n['k'] == 'DeclStmt' and len(n.get('decls', [])) == 1 and 'init' in n['decls'][0]:
                c = f.strip(f.nodes[n['decls'][0]['init']])
                if c is not None and c['k'] in ('CXXMemberCallExpr', 'CallExpr'):
                    tgt, call = ('v', n['decls'][0]['var']), c
            elif n['k'] == 'BinaryOperator' and n.get('op') == '=':
                c = f.strip(f.nodes[n['c'][1]])
                v = zone.var_of(f, f.nodes[n['c'][0]])
                if c is not None and v is not None and c['k'] in ('CXXMemberCallExpr', 'CallExpr'):
                    tgt, call = v, c
            elif n['k'] in ('CXXMemberCallExpr', 'CallExpr'):
                call = n
            if call is None or call.get('cls') != spec.cls or call.get('callee') not in spec.members:
                return
            callee = spec.members[call['callee']]
            cands = [g for g in fns.values() if g.name == call['callee']]
            if not cands:
                return
            g = cands[0]
            args = f.call_args(call)
            sub = {}
            for i, pid in enumerate(g.params):
                if i < len(args):
                    sub[g.locals[pid]['name']] = ranges.linform(f, args[i])
            for txt in callee.get('post', []):
                uses_ret = re.search(r'\bret\b', txt) is not None
                if uses_ret != (tgt is not None and n is not call):
                    # value facts are added at the receiving statement, out-parameter facts at the call element
                    if uses_ret or n is not call:
                        continue
                for L in parse_fact(txt):
                    ex = dict(sub)
                    if uses_ret:
                        ex['ret'] = {tgt: 1, 1: 0}
                    R = {1: L.get(1, 0)}
                    ok = True
                    for k, v in L.items():
                        if k == 1 or v == 0:
                            continue
                        if k.startswith('m_'):
                            R[('f', k)] = R.get(('f', k), 0) + v
                        elif k in ex and ex[k] is not None:
                            for kk, vv in ex[k].items():
                                R[kk] = R.get(kk, 0) + v * vv
                        else:
                            ok = False
                    if ok:
                        add_fact(st, {k: v for k, v in R.items() if v != 0 or k == 1})

        # rows() / cols() / size() of an array with a declared extent is that extent (when it is a single variable)
        def extent_value(f, n, spec=spec):
            ob = f.strip(f.call_object(n)) if f.call_object(n) is not None else None
            fld = f.field_name(ob) if ob is not None else None
            dims = spec.extents.get(fld)
            if dims is None:
                return None
            which = {'rows': 0, 'cols': 1, 'size': 0}[n['callee']]
            if n['callee'] == 'size' and len(dims) != 1:
                return None
            if which >= len(dims):
                return None
            R = _resolve(f, _lin(dims[which]) if isinstance(dims[which], str) else {1: dims[which]})
            if R is None:
                return None
            vs = [(k, v) for k, v in R.items() if k != 1 and v != 0]
            if not vs:
                return ('Z', R.get(1, 0))
            if len(vs) == 1 and vs[0][1] == 1:
                return (vs[0][0], R.get(1, 0))
            return None
        old_hook = zone.EXTENT_VALUE
        zone.EXTENT_VALUE = extent_value
        try:
            rec, OUT = ranges.analyse(fn, entry, post=post_hook)
        except Exception:
            zone.EXTENT_VALUE = old_hook
            raise
        inst = '%s::%s' % (spec.cls.replace('Spectra::', ''), fn.name)
        problems = []
        # ---- index obligations
        lext = {}
        for (lname, dims) in spec.local_extents.get(fn.name, {}).items():
            lext[lname] = dims
        for (pname, dims) in con.get('ptr', {}).items():
            lext[pname] = dims
        # local arrays constructed with linear sizes:  Matrix M(r, c);  Vector v(n);
        lext_forms = {}
        map_problems = []
        for x in fn.walk():
            if x['k'] == 'DeclStmt':
                for d in x['decls']:
                    if 'var' in d and 'init' in d and fn.locals[d['var']]['type'].startswith(('Eigen::Matrix<', 'Eigen::Array<')):
                        core = fn.strip(fn.nodes[d['init']], explicit_casts=False)
                        if core is not None and core['k'] in ('CXXConstructExpr', 'CXXTemporaryObjectExpr') and not core.get('copy') and not core.get('move'):
                            a_ = [ranges.linform(fn, y) for y in fn.call_args(core) if y['k'] != 'CXXDefaultArgExpr']
                            if a_ and all(y is not None for y in a_) and zone.const_local_stable(fn, d['var']):
                                lext_forms[d['var']] = a_
                    if 'var' in d and 'init' in d and fn.locals[d['var']]['type'].startswith('Eigen::Map<'):
                        # Map over a pointer parameter with a declared (rows, cols) extent: the Map's dimensions must be those
                        core = fn.strip(fn.nodes[d['init']], explicit_casts=False)
                        if core is not None and core['k'] in ('CXXConstructExpr', 'CXXTemporaryObjectExpr'):
                            a_ = [y for y in fn.call_args(core) if y['k'] != 'CXXDefaultArgExpr']
                            p0 = fn.strip(a_[0]) if a_ else None
                            if p0 is not None and p0['k'] == 'DeclRefExpr' and 'var' in p0 and fn.locals[p0['var']]['name'] in con.get('ptr', {}):
                                want = [_resolve(fn, _lin(t)) for t in con['ptr'][fn.locals[p0['var']]['name']]]
                                got = [ranges.linform(fn, y) for y in a_[1:]]
                                if len(want) == len(got) and all(g is not None and w is not None and ranges.lf_sub(g, w) == {1: 0} for g, w in zip(got, want)):
                                    lext_forms[d['var']] = got
                                else:
                                    map_problems.append('%s: Map dimensions differ from the declared extent of %s' % (fn.s(x)[:50], fn.locals[p0['var']]['name']))

        # pointer locals that are the data() of a declared array and are never re-pointed
        ptr_alias = {}
        for x in fn.walk():
            if x['k'] == 'DeclStmt':
                for d in x['decls']:
                    if 'var' in d and 'init' in d and fn.locals[d['var']]['type'].endswith('*'):
                        c0 = fn.strip(fn.nodes[d['init']])
                        if c0 is not None and c0['k'] == 'CXXMemberCallExpr' and c0.get('callee') == 'data':
                            fld = fn.field_name(fn.strip(fn.call_object(c0)))
                            if fld in spec.extents and len(spec.extents[fld]) == 1:
                                ptr_alias[d['var']] = fld
        for x in fn.walk():
            if x['k'] in ('BinaryOperator', 'CompoundAssignOperator', 'UnaryOperator') and x.get('op') in ('=', '+=', '-=', '++', '--'):
                t = fn.strip(fn.nodes[x['c'][0]])
                if t is not None and t['k'] == 'DeclRefExpr' and t.get('var') in ptr_alias:
                    del ptr_alias[t['var']]

        def ext_of(b, fn=fn):
            bs = fn.strip(b)
            if bs is None:
                return None
            f = fn.field_name(bs)
            if f is None and bs['k'] == 'DeclRefExpr' and bs.get('var') in ptr_alias:
                f = ptr_alias[bs['var']]
            dims = spec.extents.get(f)
            if dims is None and bs['k'] == 'DeclRefExpr' and 'var' in bs:
                if bs['var'] in lext_forms:
                    return lext_forms[bs['var']]
                dims = lext.get(fn.locals[bs['var']]['name'])
            if dims is None:
                return None
            out = []
            for dtxt in dims:
                R = _resolve(fn, _lin(dtxt) if isinstance(dtxt, str) else {1: dtxt})
                if R is None:
                    return None
                out.append(R)
            return out
        def ext_of_ptr(a, fn=fn):
            """extent of the array a pointer argument points into: X.data() or a never re-pointed local alias of it"""
            a0 = fn.strip(a)
            if a0 is None:
                return None
            if a0['k'] == 'CXXMemberCallExpr' and a0.get('callee') == 'data':
                return ext_of(fn.call_object(a0))
            if a0['k'] == 'DeclRefExpr' and a0.get('var') in ptr_alias:
                return ext_of(a0)
            return None
        nsite, probs = check_sites(fn, rec, ext_of)
        total_sites += nsite
        problems += probs + map_problems
        # ---- call obligations
        ncall = 0
        for c in fn.walk():
            if c['k'] not in ('CXXMemberCallExpr', 'CallExpr'):
                continue
            if c.get('cls') == spec.cls and c.get('callee') in spec.members:
                cands = [g for g in fns.values() if g.name == c['callee']]
                if not cands:
                    continue
                g = cands[0]
                z = rec.get(fn.pos_of(c))
                if z is None:
                    continue          # unreachable in the analysis
                ncall += 1
                args = fn.call_args(c)
                sub = {g.locals[pid]['name']: (ranges.linform(fn, args[i]) if i < len(args) else None) for i, pid in enumerate(g.params)}
                for pname, dims in spec.members[c['callee']].get('ptr', {}).items():
                    i_ = [g.locals[pid]['name'] for pid in g.params].index(pname)
                    act = ext_of_ptr(args[i_])
                    want = [_resolve(fn, _lin(t), extra=sub) for t in dims]
                    if act is None or len(act) != len(want) or any(w is None for w in want):
                        problems.append('call %s: extent of the array behind `%s` is unknown' % (fn.s(c)[:50], pname))
                    else:
                        for w, a0 in zip(want, act):
                            eq = len(want) > 1
                            d_ = ranges.lf_sub(w, a0)
                            if (eq and d_ != {1: 0}) or (not eq and not ranges.prove_nonpos(z, d_)):
                                problems.append('call %s: the array behind `%s` is smaller than the callee assumes (%s)' % (fn.s(c)[:50], pname, dims))
                for txt in spec.members[c['callee']].get('pre', []):
                    for L in parse_fact(txt):
                        R = _resolve(fn, L, extra=sub)
                        if R is None or not ranges.prove_nonpos(z, R):
                            problems.append('call %s: cannot prove the precondition `%s`' % (fn.s(c)[:50], txt))
            if c.get('callee') in spec.windows and (c.get('cls') == spec.cls or c.get('cls') is None):
                z = rec.get(fn.pos_of(c))
                if z is None:
                    continue
                ncall += 1
                problems += _window_call(fn, z, c, spec, ext_of)
        # ---- exit obligations
        posts = con.get('post', [])
        if posts:
            rets = [x for x in fn.walk() if x['k'] == 'ReturnStmt']
            exit_id = fn.cfg['exit']
            for txt in posts:
                uses_ret = re.search(r'\bret\b', txt) is not None
                for L in parse_fact(txt):
                    if uses_ret:
                        for r in rets:
                            z = rec.get(fn.pos_of(r))
                            if z is None:
                                continue
                            val = ranges.linform(fn, fn.nodes[r['value']]) if r.get('value', -1) is not None and r.get('value', -1) >= 0 else None
                            R = _resolve(fn, L, extra={'ret': val})
                            if R is None or not ranges.prove_nonpos(z, R):
                                problems.append('return %s: cannot prove the postcondition `%s`' % (fn.s(r)[:40], txt))
                    else:
                        R = _resolve(fn, L)
                        for p in fn.preds().get(exit_id, []):
                            z = OUT.get(p)
                            if z is None or fn.blocks[p].get('throws'):
                                continue
                            if R is None or not ranges.prove_nonpos(z, R):
                                problems.append('exit: cannot prove the postcondition `%s`' % txt)
        zone.EXTENT_VALUE = old_hook
        ctx.check(not problems, rule, inst, fn.qname,
                  '%d index / view sites inside their arrays, %d call preconditions, %d postconditions, for all sizes under `%s`' %
                  (nsite, ncall, len(posts), '; '.join(con.get('pre', [])) or 'true')
                  if not problems else '; '.join(sorted(set(problems))[:5]))
    missing = set(spec.members) - seen_names
    if missing:
        raise AnalysisBroken('%s: contracted members not instantiated: %s' % (spec.cls, sorted(missing)))
    if total_sites < min_sites:
        raise AnalysisBroken('%s: only %d index sites analysed (expected >= %d)' % (spec.cls, total_sites, min_sites))
    return total_sites


def _window_call(fn, z, c, spec, ext_of):
    """Kernel taking a raw pointer to element (r, c0) of a column-major matrix plus a stride: the (rows x cols) window starting
    there must lie inside the matrix and the stride must be the matrix's column stride."""
    w = spec.windows[c['callee']]
    pname, rows, cols, stride = w['ptr'], w['rows'], w['cols'], w['stride']
    args = fn.call_args(c)
    amap = dict(zip(w['params'], args))
    probs = []
    what = fn.s(c)[:60]
    p = fn.strip(amap[pname])
    if not (p['k'] == 'UnaryOperator' and p.get('op') == '&'):
        return ['%s: pointer argument is not the address of a matrix element' % what]
    el = fn.strip(fn.nodes[p['c'][0]])
    if el['k'] == 'CXXMemberCallExpr' and el.get('callee') in ('coeffRef', 'coeff'):
        base, idx = fn.call_object(el), fn.call_args(el)
    elif el['k'] == 'CXXOperatorCallExpr' and el.get('op') == '()':
        a = fn.call_args(el)
        base, idx = a[0], a[1:]
    else:
        return ['%s: pointer argument is not the address of a matrix element' % what]
    e = ext_of(base)
    if e is None or len(e) != 2 or len(idx) != 2:
        return ['%s: matrix of unknown extent' % what]
    r0, c0 = ranges.linform(fn, idx[0]), ranges.linform(fn, idx[1])
    if r0 is None or c0 is None:
        return ['%s: non-linear window origin' % what]

    def forms(spec_dim):
        if isinstance(spec_dim, int):
            return [{1: spec_dim}]
        return ranges.upper_forms(fn, amap[spec_dim]) or []
    for (o, dim, ee, nm) in ((r0, rows, e[0], 'rows'), (c0, cols, e[1], 'columns')):
        if not ranges.prove_nonpos(z, {**{k: -v for k, v in o.items() if k != 1}, 1: -o.get(1, 0)}):
            probs.append('%s: cannot prove window origin >= 0 (%s)' % (what, nm))
        ok = False
        for U in forms(dim):
            tot = dict(o)
            for k_, v_ in U.items():
                tot[k_] = tot.get(k_, 0) + v_
            if ranges.prove_nonpos(z, ranges.lf_sub(tot, ee)):
                ok = True
        if not ok:
            probs.append('%s: the %s-window may extend past the last of the %s' % (what, dim if isinstance(dim, int) else fn.s(amap[dim]), nm))
    st = ranges.linform(fn, amap[stride])
    if st is None or ranges.lf_sub(st, e[0]) != {1: 0} and {k: v for k, v in ranges.lf_sub(st, e[0]).items() if v != 0} != {}:
        probs.append('%s: stride %s is not the column stride of the matrix' % (what, fn.s(amap[stride])))
    return probs
