"""C11 -- matrix-operation wrappers: the triangle option reaches every triangle-sensitive entity."""
import re
from .facts import AnalysisBroken
from . import paths
from .sym import sym, show

EXPLANATION = (
    'Template-parameter flow over the instantiated wrappers (each instantiated with Lower AND with Upper by the drivers). '
    'Decides: (D1) in the instantiation with triangle option u, every entity from a frozen table of triangle-sensitive Eigen '
    'entities that touches the stored input carries u: selfadjointView<.> / triangularView<.> calls, LLT / LDLT / SimplicialLLT / '
    'SimplicialLDLT / ConjugateGradient field or local types (their UpLo argument), and the uplo argument of the Bunch-Kaufman '
    'factorization -- for the 9 wrappers with a triangle option; a class that declares the option must use it at least once; '
    '(D2) triangle typestate of the matrix A - sigma*B assembled by the three SymShiftInvert helpers, for all four (UploA, UploB) '
    'pairs and the four dense/sparse pairings: the triangle written into the local matrix equals the one handed to the '
    'factorization, A is read only through UploA and B only through UploB, and the other matrix\'s contribution is transposed '
    'exactly when the two options differ (the compile-time branch is resolved from its constant value); (D3) the element '
    'accessor of the product wrappers is called by the library only on the diagonal (i == j), where it is triangle-independent; '
    '(D4) the stored input matrix of a wrapper is consumed only by triangle views, triangle-aware factorizations, size queries or '
    'element access -- never by a plain product or copy; (D5) each wrapper factorizes with a method adequate for the class of its '
    'matrix (pivoting LU / Bunch-Kaufman for shifted indefinite or general matrices, Cholesky / CG for the positive definite B). '
    'Every set_shift (and BKLDLT::compute under it) rebuilds whatever the solve reads: no state of an earlier shift on the same wrapper object survives. Does NOT decide backward-stable accuracy of any wrapper; Eigen\'s kernels and its documentation of which template '
    'argument selects which triangle are trusted.')
ASSUMPTIONS = ["Eigen's UpLo template arguments select the triangle that is read (Eigen documentation)"]

TRI_WRAPPERS = ('DenseSymMatProd', 'DenseHermMatProd', 'SparseSymMatProd', 'SparseHermMatProd', 'DenseSymShiftSolve', 'SparseSymShiftSolve',
                'DenseCholesky', 'SparseCholesky', 'SparseRegularInverse')
# entity -> index of the UpLo template argument in the printed type
TRI_TYPES = {'Eigen::LLT': 1, 'Eigen::LDLT': 1, 'Eigen::SimplicialLLT': 1, 'Eigen::SimplicialLDLT': 1, 'Eigen::SimplicialCholesky': 1,
             'Eigen::ConjugateGradient': 1, 'Eigen::LeastSquaresConjugateGradient': None}
TRI_METHODS = ('selfadjointView', 'triangularView')
NAMES = {'1': 'Lower', '2': 'Upper'}


def split_targs(t):
    """Top-level template arguments of a printed type 'X<a, b<c, d>, e>' -> (name, [a, 'b<c, d>', e])."""
    if '<' not in t:
        return t, []
    name = t[:t.index('<')]
    inner = t[t.index('<') + 1:t.rindex('>')]
    out, depth, cur = [], 0, ''
    for ch in inner:
        if ch == '<':
            depth += 1
        elif ch == '>':
            depth -= 1
        if ch == ',' and depth == 0:
            out.append(cur.strip())
            cur = ''
        else:
            cur += ch
    if cur.strip():
        out.append(cur.strip())
    return name, out


def record_param(rec, pname):
    tp = rec.get('tparams', [])
    if pname in tp and tp.index(pname) < len(rec['targs']):
        return rec['targs'][tp.index(pname)]
    return None


FLIP = {'1': '2', '2': '1'}


def _transposed(fn, node):
    """odd number of transpose() / adjoint() applications inside the expression"""
    return sum(1 for y in fn.walk(node['id']) if y['k'] == 'CXXMemberCallExpr' and y.get('callee') in ('transpose', 'adjoint')) % 2 == 1


def triangle_threading(ctx, rule='triangle-option-reaches-every-use'):
    for w in TRI_WRAPPERS:
        recs = ctx.F.records_of('Spectra::' + w, dep=False)
        seen_u = set()
        for rec in recs:
            u = record_param(rec, 'Uplo')
            if u is None:
                raise AnalysisBroken('%s: Uplo parameter not found' % rec['qname'])
            seen_u.add(u)
            uses = []
            for f in rec['fields']:
                ty = f['type'][6:] if f['type'].startswith('const ') else f['type']
                nm, args = split_targs(ty)
                if nm in TRI_TYPES and TRI_TYPES[nm] is not None and len(args) > TRI_TYPES[nm]:
                    uses.append(('field %s : %s' % (f['name'], nm.replace('Eigen::', '')), args[TRI_TYPES[nm]]))
            for fn in ctx.F.methods(rec['qname']):
                for x in fn.walk():
                    if x['k'] == 'CXXMemberCallExpr' and x.get('callee') in TRI_METHODS and x.get('org') == 'E':
                        ta = x.get('targs') or ['?']
                        obj = fn.nodes[fn.nodes[x['c'][0]]['c'][0]] if x.get('c') and fn.nodes[x['c'][0]].get('c') else None
                        if obj is not None and _transposed(fn, obj):
                            uses.append(('%s: %s<.> of a TRANSPOSED view (reads the opposite triangle of the stored matrix)' % (fn.name, x['callee']), FLIP.get(ta[0], '?')))
                        else:
                            uses.append(('%s: %s<.>' % (fn.name, x['callee']), ta[0]))
                    if x['k'] in ('CXXMemberCallExpr', 'CXXConstructExpr', 'CXXTemporaryObjectExpr') and (
                            (x.get('callee') == 'compute' and x.get('cls') == 'Spectra::BKLDLT') or x.get('ctor_of') == 'Spectra::BKLDLT'):
                        args = fn.call_args(x)
                        if len(args) >= 2:
                            a = fn.strip(args[1]) if args[1]['k'] != 'SubstNonTypeTemplateParmExpr' else args[1]
                            cv = args[1].get('cval') or (a.get('cval') if a else None)
                            if _transposed(fn, args[0]):
                                uses.append(('%s: BKLDLT uplo argument with a TRANSPOSED matrix argument (reads the opposite triangle of the stored matrix)' % fn.name, FLIP.get(cv, '?')))
                            else:
                                uses.append(('%s: BKLDLT uplo argument' % fn.name, cv if cv is not None else '?'))
                    if x['k'] == 'DeclStmt':
                        for d in x.get('decls', []):
                            if 'var' in d:
                                nm, args = split_targs(fn.locals[d['var']]['type'].replace('const ', '', 1))
                                if nm in TRI_TYPES and TRI_TYPES[nm] is not None and len(args) > TRI_TYPES[nm]:
                                    uses.append(('%s: local %s' % (fn.name, nm), args[TRI_TYPES[nm]]))
            inst = '%s<%s>' % (w, NAMES.get(u, u))
            bad = ['%s uses %s' % (what, NAMES.get(v, v)) for what, v in uses if v != u]
            if not uses:
                ctx.fail(rule, inst, rec['qname'], 'the class has a triangle option but no triangle-sensitive entity uses it')
                continue
            ctx.check(not bad, rule, inst, rec['qname'],
                      '%d triangle-sensitive uses all carry %s: %s' % (len(uses), NAMES.get(u, u), sorted(set(x for x, _ in uses))) if not bad else
                      'instantiated with %s but %s' % (NAMES.get(u, u), '; '.join(bad)))
        if not {'1', '2'} <= seen_u:
            raise AnalysisBroken('%s is not instantiated with both Lower and Upper (saw %s)' % (w, sorted(seen_u)))


def shift_invert_typestate(ctx, rule='assembled-matrix-triangle-typestate'):
    fns = [f for f in ctx.F.concrete() if f.cls == 'Spectra::SymShiftInvertHelper' and f.name == 'factorize']
    if len(fns) < 16:
        raise AnalysisBroken('only %d SymShiftInvertHelper::factorize instantiations (16 expected)' % len(fns))
    for fn in fns:
        rec = [r for r in ctx.F.records.values() if r['qname'] == fn.record and not r['dep']][0]
        ua, ub = record_param(rec, 'UploA'), record_param(rec, 'UploB')
        asp, bsp = record_param(rec, 'AIsSparse'), record_param(rec, 'BIsSparse')
        pn = [fn.locals[v]['name'] for v in fn.params]
        A, B = pn[1], pn[2]
        want = {A: ua, B: ub}
        inst = 'Helper<A %s, B %s, %s, %s>' % ('sparse' if asp == '1' else 'dense', 'sparse' if bsp == '1' else 'dense', NAMES.get(ua), NAMES.get(ub))
        problems = []
        # live statements: resolve the compile-time branch
        dead = set()
        for i in fn.walk():
            if i['k'] == 'IfStmt':
                cv = fn.nodes[i['cond']].get('cval')
                if cv is None:
                    cv = fn.strip(fn.nodes[i['cond']]).get('cval')
                if cv is None:
                    problems.append('branch %s is not a compile-time constant' % fn.s(i['cond']))
                    continue
                deadb = i.get('else', -1) if cv != '0' else i['then']
                if deadb is not None and deadb >= 0:
                    for x in fn.walk(deadb):
                        dead.add(x['id'])
        views = []   # (matrix names, SOURCE triangle of the matrix that is read, does the result land in the opposite triangle?, node)
        OPP = {'1': '2', '2': '1'}
        for x in fn.walk():
            if x['id'] in dead:
                continue
            if x['k'] == 'CXXMemberCallExpr' and x.get('callee') in TRI_METHODS:
                tri = (x.get('targs') or ['?'])[0]
                obj = fn.call_object(x)
                names = set(m[1] for m in fn.mentions(obj) if m[0] in ('param', 'local'))
                # a transpose BELOW the view (X.transpose().triangularView<T>()) reads the opposite triangle of X and lands in T;
                # a transpose ABOVE the view (X.triangularView<T>().transpose()) reads T and lands in the opposite triangle
                below = sum(1 for y in fn.walk(obj) if y['k'] == 'CXXMemberCallExpr' and y.get('callee') in ('transpose', 'adjoint')) % 2 == 1
                par = fn.node(fn.parent.get(x['id'], -1))
                while par is not None and par['k'] in ('ImplicitCastExpr', 'MaterializeTemporaryExpr', 'ExprWithCleanups', 'MemberExpr', 'CXXBindTemporaryExpr'):
                    if par['k'] == 'MemberExpr' and par.get('member') in ('transpose', 'adjoint'):
                        break
                    par = fn.node(fn.parent.get(par['id'], -1))
                above = par is not None and par['k'] == 'MemberExpr' and par.get('member') in ('transpose', 'adjoint')
                src_tri = OPP.get(tri, tri) if below else tri
                dst_tri = OPP.get(tri, tri) if above else tri
                views.append((names, src_tri, dst_tri, x))
        written = None
        for names, tri, dst, x in views:
            if 'mat' in names or (names and not (names & {A, B})):
                # destination view of the local matrix
                written = tri
        comp = [x for x in fn.walk() if x['k'] == 'CXXMemberCallExpr' and x.get('callee') == 'compute' and x['id'] not in dead]
        if len(comp) != 1:
            problems.append('%d factorization calls' % len(comp))
        if asp == '1' and bsp == '1':
            # both sparse: full symmetric matrices are built from the named triangles
            for names, tri, dst, x in views:
                for m in (A, B):
                    if m in names and tri != want[m]:
                        problems.append('%s is read through %s, not %s' % (m, NAMES.get(tri, tri), NAMES.get(want[m])))
            if len([v for v in views if v[0] & {A, B}]) != 2:
                problems.append('expected one selfadjoint view of A and one of B')
        else:
            if written is None:
                problems.append('no triangular view of the assembled matrix is written')
            else:
                # the matrix assigned into the written triangle is read as that triangle: its option must equal `written`
                dense_first = A if asp != '1' else B
                if want[dense_first] != written:
                    problems.append('triangle %s of the local matrix is written from %s, whose option is %s' % (NAMES.get(written), dense_first, NAMES.get(want[dense_first])))
                other = B if dense_first == A else A
                ov = [(tri, dst) for names, tri, dst, x in views if other in names]
                if len(ov) != 1:
                    problems.append('%d live views of %s (expected 1)' % (len(ov), other))
                else:
                    tri, dst = ov[0]
                    if tri != want[other]:
                        problems.append('the %s triangle of %s is read, but its option is %s' % (NAMES.get(tri, tri), other, NAMES.get(want[other])))
                    if dst != written:
                        problems.append('%s contribution lands in the %s triangle but %s is assembled and factorized' % (other, NAMES.get(dst, dst), NAMES.get(written)))
                if comp:
                    args = fn.call_args(comp[0])
                    cv = args[1].get('cval') if len(args) >= 2 else None
                    if cv is None and len(args) >= 2:
                        cv = fn.strip(args[1]).get('cval')
                    if cv != written:
                        problems.append('factorization is told to read %s but %s was assembled' % (NAMES.get(cv, cv), NAMES.get(written)))
        ctx.check(not problems, rule, inst, fn.qname,
                  'A read through %s, B through %s, assembled triangle = factorized triangle' % (NAMES.get(ua), NAMES.get(ub)) if not problems else '; '.join(problems))


PRODUCT = ('Spectra::DenseSymMatProd', 'Spectra::SparseSymMatProd', 'Spectra::DenseGenMatProd', 'Spectra::SparseGenMatProd',
           'Spectra::DenseHermMatProd', 'Spectra::SparseHermMatProd')



def stored_matrix_consumers(ctx, rule='stored-matrix-read-only-through-triangle'):
    """In a wrapper with a triangle option the stored input matrix may be consumed only by triangle-aware entities (a
    selfadjoint / triangular view, the Bunch-Kaufman factorization with its uplo argument, a decomposition whose type carries
    the option), by size queries, or element-wise (separate rule).  Anything else -- a plain product, an assignment, a
    full-matrix decomposition -- reads the triangle the user was told is not referenced."""
    SIZE = ('rows', 'cols', 'size', 'nonZeros', 'outerSize', 'innerSize')
    ELEM = ('coeff', 'coeffRef')
    n = 0
    for w in TRI_WRAPPERS:
        for rec in ctx.F.records_of('Spectra::' + w, dep=False):
            mats = [f['name'] for f in rec['fields'] if re.search(r'Eigen::(Ref|Map)<const Eigen::(Matrix|SparseMatrix)<', f['type'])]
            if not mats:
                continue
            problems = []
            uses_extra = []
            nuse = 0
            for fn in ctx.F.methods(rec['qname']):
                for x in fn.walk():
                    if not (x['k'] == 'MemberExpr' and x.get('mk') == 'field' and x.get('member') in mats):
                        continue
                    cur = x
                    par = fn.node(fn.parent.get(cur['id'], -1))
                    while par is not None and par['k'] in ('ImplicitCastExpr', 'ParenExpr', 'MaterializeTemporaryExpr', 'ExprWithCleanups', 'CXXBindTemporaryExpr'):
                        cur = par
                        par = fn.node(fn.parent.get(cur['id'], -1))
                    nuse += 1
                    ok = False
                    how = par['k'] if par is not None else '?'
                    if par is not None and par['k'] == 'MemberExpr' and par.get('mk') == 'method':
                        how = par.get('member')
                        ok = how in SIZE or how in TRI_METHODS or how in ELEM
                    elif par is not None and par['k'] == 'CXXOperatorCallExpr' and par.get('op') == '()':
                        ok = True           # element access (diagonal-only rule)
                        how = 'operator()'
                    elif par is not None and par['k'] in ('CXXMemberCallExpr', 'CXXConstructExpr', 'CXXTemporaryObjectExpr'):
                        how = '%s(..)' % (par.get('callee') or par.get('ctor_of'))
                        if (par.get('callee') == 'compute' and par.get('cls') == 'Spectra::BKLDLT') or par.get('ctor_of') == 'Spectra::BKLDLT':
                            ok = True
                        elif par.get('callee') in ('compute', 'analyzePattern', 'factorize'):
                            nm, args = split_targs((par.get('cls_t') or par.get('cls') or '').replace('const ', '', 1))
                            ob = fn.call_object(par)
                            oty = (fn.strip(ob) or {}).get('t', '') if ob is not None else ''
                            nm2, _ = split_targs(oty.replace('const ', '', 1))
                            ok = TRI_TYPES.get(nm) is not None or TRI_TYPES.get(nm2) is not None
                    if not ok:
                        # an expression built from the stored matrix (A - sigma I, a cast, ...) handed directly to a triangle-aware
                        # factorization is read through that factorization's triangle
                        for anc in fn.ancestors(x):
                            if anc['k'] == 'CXXMemberCallExpr' and anc.get('callee') in ('compute', 'analyzePattern', 'factorize'):
                                ob = fn.call_object(anc)
                                oty = (fn.strip(ob) or {}).get('t', '') if ob is not None else ''
                                nm2, args2 = split_targs(oty.replace('const ', '', 1))
                                if TRI_TYPES.get(nm2) is not None and any(fn.within(x, a_['id']) for a_ in fn.call_args(anc)):
                                    ok = True
                                    uses_extra.append(('%s: %s triangle of an expression over the stored matrix' % (fn.name, nm2.replace('Eigen::', '')), args2[TRI_TYPES[nm2]] if len(args2) > TRI_TYPES[nm2] else '?'))
                                break
                    if not ok:
                        # ... or copied into a local whose every use is such an argument (or a size query)
                        for anc in fn.ancestors(x):
                            if anc['k'] == 'DeclStmt' and len(anc.get('decls', [])) == 1 and 'var' in anc['decls'][0]:
                                lv = anc['decls'][0]['var']
                                uses_l = [y for y in fn.walk() if y['k'] == 'DeclRefExpr' and y.get('var') == lv]
                                good = bool(uses_l)
                                tri = None
                                for y in uses_l:
                                    okuse = False
                                    for a2 in fn.ancestors(y):
                                        if a2['k'] == 'MemberExpr' and a2.get('mk') == 'method' and a2.get('member') in SIZE:
                                            okuse = True
                                            break
                                        if a2['k'] == 'CXXMemberCallExpr' and a2.get('callee') in ('compute', 'analyzePattern', 'factorize'):
                                            ob = fn.call_object(a2)
                                            oty = (fn.strip(ob) or {}).get('t', '') if ob is not None else ''
                                            nm2, args2 = split_targs(oty.replace('const ', '', 1))
                                            if TRI_TYPES.get(nm2) is not None and any(fn.within(y, a_['id']) for a_ in fn.call_args(a2)):
                                                okuse = True
                                                tri = (nm2, args2[TRI_TYPES[nm2]] if len(args2) > TRI_TYPES[nm2] else '?')
                                            break
                                    good = good and okuse
                                if good and tri is not None:
                                    ok = True
                                    uses_extra.append(('%s: %s triangle of a local copy built from the stored matrix' % (fn.name, tri[0].replace('Eigen::', '')), tri[1]))
                                break
                    if not ok:
                        problems.append('%s: the stored matrix %s is consumed by %s (`%s`): both triangles are read' % (fn.name, x['member'], how, fn.s(par['id'])[:60] if par is not None else ''))
            n += 1
            u = record_param(rec, 'Uplo')
            problems += ['%s uses %s, the class was instantiated with %s' % (what_, NAMES.get(v_, v_), NAMES.get(u, u)) for what_, v_ in uses_extra if v_ != u]
            ctx.check(not problems, rule, '%s<%s>' % (w, NAMES.get(u, u)), rec['qname'],
                      '%d uses of the stored matrix: size queries, triangle views, triangle-aware factorizations, element access only' % nuse
                      if not problems else '; '.join(sorted(set(problems))[:3]))
    if n < 10:
        raise AnalysisBroken('only %d wrappers with a stored matrix analysed' % n)


# wrapper -> (what its matrix is, factorization templates that are adequate for it)
FACTORIZATION_KIND = {
    'DenseSymShiftSolve': ('A - sigma I, symmetric INDEFINITE in general', ('Spectra::BKLDLT',)),
    'SparseSymShiftSolve': ('A - sigma I, symmetric INDEFINITE in general', ('Eigen::SparseLU',)),
    'DenseGenRealShiftSolve': ('A - sigma I, general', ('Eigen::PartialPivLU', 'Eigen::FullPivLU')),
    'DenseGenComplexShiftSolve': ('A - sigma I, general complex', ('Eigen::PartialPivLU', 'Eigen::FullPivLU')),
    'SparseGenRealShiftSolve': ('A - sigma I, general', ('Eigen::SparseLU',)),
    'SparseGenComplexShiftSolve': ('A - sigma I, general complex', ('Eigen::SparseLU',)),
    'DenseCholesky': ('B, symmetric positive definite', ('Eigen::LLT', 'Eigen::LDLT')),
    'SparseCholesky': ('B, symmetric positive definite', ('Eigen::SimplicialLLT', 'Eigen::SimplicialLDLT')),
    'SparseRegularInverse': ('B, symmetric positive definite', ('Eigen::ConjugateGradient', 'Eigen::SimplicialLLT', 'Eigen::SimplicialLDLT')),
}


def factorization_kinds(ctx, rule='factorization-adequate-for-matrix-class'):
    """Backward-stable accuracy for every admissible matrix needs a factorization that is stable for the CLASS of matrix the
    wrapper factorizes: a pivoting method (LU with partial pivoting, Bunch-Kaufman) for the indefinite / general shifted
    matrices, Cholesky / CG only for the positive definite B.  Table rule over the solver field types of the 9 wrappers."""
    n = 0
    for w, (what, okset) in sorted(FACTORIZATION_KIND.items()):
        recs = ctx.F.records_of('Spectra::' + w, dep=False)
        if not recs:
            raise AnalysisBroken('%s not instantiated' % w)
        for rec in recs:
            facs = []
            for f in rec['fields']:
                nm, _ = split_targs(f['type'].replace('const ', '', 1))
                if nm.startswith('Eigen::') and any(k in nm for k in ('LU', 'LLT', 'LDLT', 'Cholesky', 'QR', 'Gradient', 'CG', 'BiCG', 'GMRES')) or nm == 'Spectra::BKLDLT':
                    facs.append((f['name'], nm))
            n += 1
            bad = ['%s : %s' % (fname, nm.replace('Eigen::', '')) for fname, nm in facs if nm not in okset]
            ctx.check(bool(facs) and not bad, rule, w, rec['qname'],
                      '%s: factorized by %s' % (what, ', '.join(nm.replace('Eigen::', '') for _, nm in facs)) if facs and not bad else
                      ('%s, but the solver is %s: not in the adequate set %s (an unpivoted or definite-only method breaks down or loses accuracy on admissible inputs)' %
                       (what, ', '.join(bad), [k.replace('Eigen::', '') for k in okset])) if facs else 'no factorization member found')
    if n < 9:
        raise AnalysisBroken('only %d wrapper instantiations analysed' % n)


PASS_THROUGH = ('cast', 'selfadjointView', 'triangularView', 'transpose', 'adjoint', 'conjugate', 'array', 'matrix', 'eval', 'real', 'template',
                'sparseView', 'toDenseMatrix', 'twistedBy', 'noalias', 'derived', 'diagonal', 'pruned')


def _mdeg(fn, t, env):
    """Degree of a matrix-valued normal form in the scale of the user's matrices (1 = scales like ||A||; shifts carry the unit of A):
    0, 1, 2, .. or None when the form is outside the table."""
    if not isinstance(t, tuple):
        return None
    if t[0] == 'lit':
        return 0
    if t in env:
        return env[t]
    if t[0] in ('Identity', 'setIdentity') or (t[0] == 'call' and t[1] in ('Identity',)):
        return 1            # the identity stands for a matrix of the scale of A; the shift that multiplies it is a pure number
    if t[0] in ('Zero',) or (t[0] == 'call' and t[1] in ('Zero',)):
        return 0
    if t[0] == 'ctor' and len(t) >= 3:
        ds = [_mdeg(fn, u, env) for u in t[2:]]
        ds = [d for d in ds if d is not None]
        return max(ds) if ds else None
    if t[0] in PASS_THROUGH and len(t) >= 2:
        return _mdeg(fn, t[1], env)
    if t[0] == 'u-':
        return _mdeg(fn, t[1], env)
    if t[0] == '*':
        ds = [_mdeg(fn, u, env) for u in t[1:]]
        return None if any(d is None for d in ds) else sum(ds)
    if t[0] == '/' and len(t) == 3:
        a, b = _mdeg(fn, t[1], env), _mdeg(fn, t[2], env)
        return None if a is None or b is None else a - b
    if t[0] in ('+', '-') and len(t) >= 3:
        ds = [_mdeg(fn, u, env) for u in t[1:]]
        if any(d is None for d in ds):
            return None
        return max(ds)          # A*A + s^2 I is of degree 2; a sum of degree-1 terms stays 1
    return None


def factorized_matrix_affine(ctx, rule='factorized-matrix-is-first-degree-in-the-stored-matrix'):
    """"To backward-stable accuracy, for all shifts": a wrapper that solves with A - sigma I (or A - sigma B, or B) must hand its
    factorization THAT matrix -- an expression of degree one in the stored matrices and the shift.  Factorizing a product of the
    matrix with itself (the real normal-equation form (A - sr I)^2 + si^2 I of a complex shift, A'A for a least-squares detour)
    is the same operator in exact arithmetic but squares the condition number: the forward error becomes eps cond^2, which for a
    shift close to an eigenvalue (the very case shift-and-invert is used for) loses all digits while the direct form keeps half.
    Degree analysis of the argument of every factorization call in the wrappers (matrices and the identity count one, shifts
    are pure numbers); locals and fields are followed through their writes in the same function."""
    n = 0
    seen = set()
    for fn in ctx.F.concrete():
        cls = fn.cls or ''
        if not cls.startswith('Spectra::') or fn.mangled in seen or not (cls.replace('Spectra::', '') in FACTORIZATION_KIND or cls.startswith('Spectra::SymShiftInvert')):
            continue
        seen.add(fn.mangled)
        calls = [x for x in fn.walk() if x['k'] == 'CXXMemberCallExpr' and x.get('callee') in ('compute', 'factorize') and
                 ('Eigen::' in (x.get('cls') or '') or x.get('cls') == 'Spectra::BKLDLT')]
        if not calls:
            continue
        # environment: the stored matrix fields and matrix / shift parameters are of degree one
        env = {}
        rec = [r for r in ctx.F.records.values() if r['qname'] == fn.record and not r['dep']]
        for f in (rec[0]['fields'] if rec else []):
            if 'Ref<' in f['type'] or f['name'] in ('m_mat', 'm_matA', 'm_matB'):
                env[('F', f['name'])] = 1
            if f['name'].startswith('m_sigma'):
                env[('F', f['name'])] = 0
        for v in fn.params:
            env[('P', fn.locals[v]['name'])] = 1 if 'Eigen::' in fn.locals[v].get('type', '') else 0
        for x in fn.walk():
            if x['k'] == 'CXXMemberCallExpr' and x.get('callee') == 'setIdentity':
                r = fn.root_of(fn.call_object(x))
                if r is not None and r[0] == 'local':
                    env[('L', fn.locals[r[1]]['name'])] = 1
        # locals and other fields: degree of everything written into them in this function (max over the writes)
        changed = True
        rounds = 0
        while changed and rounds < 4:
            changed = False
            rounds += 1
            for x in fn.walk():
                tgt = rhs = None
                if x['k'] in ('CXXOperatorCallExpr', 'BinaryOperator', 'CompoundAssignOperator') and x.get('op') in ('=', '+=', '-='):
                    a = fn.call_args(x) if x['k'] == 'CXXOperatorCallExpr' else [fn.nodes[c] for c in x['c']]
                    if len(a) == 2:
                        r = fn.root_of(a[0])
                        if r is not None and r[0] in ('local', 'field'):
                            tgt, rhs = r, sym(fn, a[1], inline=False)
                elif x['k'] == 'DeclStmt':
                    for d in x.get('decls', []):
                        if 'var' in d and 'init' in d and d['init'] >= 0:
                            t = sym(fn, d['init'], inline=False)
                            dg = _mdeg(fn, t, env)
                            key = ('L', fn.locals[d['var']]['name'])
                            if dg is not None and dg > env.get(key, -1) and 'Eigen::' in fn.locals[d['var']].get('type', ''):
                                env[key] = dg
                                changed = True
                if tgt is not None:
                    key = ('L', fn.locals[tgt[1]]['name']) if tgt[0] == 'local' else ('F', tgt[1])
                    if key in env and key[0] == 'F' and (key[1] in ('m_mat', 'm_matA', 'm_matB')):
                        continue
                    dg = _mdeg(fn, rhs, env)
                    if dg is not None and dg > env.get(key, -1):
                        env[key] = dg
                        changed = True
        for c in calls:
            args = fn.call_args(c)
            if not args:
                continue
            t = sym(fn, args[0], inline=False)
            dg = _mdeg(fn, t, env)
            n += 1
            inst = '%s::%s' % (cls.replace('Spectra::', ''), fn.name)
            if dg is None:
                raise AnalysisBroken('%s: cannot classify the factorized matrix `%s`' % (fn.qname, show(t)[:80]))
            ctx.check(dg == 1, rule, inst, fn.qname,
                      'factorizes `%s`: first degree in the stored matrix and the shift' % show(t)[:60] if dg == 1 else
                      'factorizes `%s`, of degree %d in the stored matrix: the condition number of the factorized matrix is the %s power of that of the operator '
                      'the wrapper documents -- forward error eps cond^%d instead of eps cond for shifts near an eigenvalue' % (show(t)[:60], dg, {2: 'second', 0: 'zeroth'}.get(dg, '%d-th' % dg), dg))
    if n < 9:
        raise AnalysisBroken('only %d factorization calls classified in the wrappers' % n)


def element_accessor_diagonal_only(ctx, rule='element-accessor-used-on-diagonal-only'):
    n = 0
    for fn in ctx.F.concrete():
        if not fn.cls.startswith('Spectra::') or fn.cls in PRODUCT:
            continue
        for x in fn.walk():
            if x['k'] == 'CXXOperatorCallExpr' and x.get('op') == '()' and x.get('cls') in PRODUCT and x.get('org') == 'S':
                args = fn.call_args(x)[1:]
                n += 1
                ok = len(args) == 2 and sym(fn, args[0], inline=False) == sym(fn, args[1], inline=False)
                ctx.check(ok, rule, '%s::%s' % (fn.cls.replace('Spectra::', ''), fn.name), fn.qname,
                          'op(i, i): diagonal only' if ok else 'reads element (%s) of the operator: not restricted to the stored triangle' % ', '.join(fn.s(a) for a in args))
    if n < 1:
        raise AnalysisBroken('no library call of the element accessor found (1 confirmed by hand)')


def run(ctx):
    stored_matrix_consumers(ctx)
    factorization_kinds(ctx)
    factorized_matrix_affine(ctx)
    triangle_threading(ctx)
    shift_invert_typestate(ctx)
    element_accessor_diagonal_only(ctx)
    from . import c10
    c10.copy_data_triangle(ctx)
    # the operator after set_shift(sigma) is a function of (matrix, sigma) alone: every set_shift and the factorization it
    # runs rebuild whatever the solve reads (state of an earlier shift on the same wrapper object must not survive)
    from . import c06
    c06.recompute_complete(ctx, only=tuple(k for k in c06.RECOMPUTED if k[1] == 'set_shift' or k == ('Spectra::BKLDLT', 'compute')))
    from . import hygiene
    hygiene.view_storage_scanned_with_its_layout(ctx)
    ctx.require('triangle-option-reaches-every-use', 18)
    ctx.require('assembled-matrix-triangle-typestate', 16)
