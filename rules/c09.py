"""C09 -- small dense eigen-decompositions: iteration cap => exception, exact real / conjugate-pair conventions."""
from .facts import AnalysisBroken
from . import paths
from .sym import sym, show, atoms

EXPLANATION = (
    'Path and sign-domain rules over the CFGs of the instantiated TridiagEigen, UpperHessenbergSchur and UpperHessenbergEigen. '
    'Decides: (D1) on every path on which an iteration-cap test succeeds, a throw is reached and the `computed` flag is never set '
    '(must-pass-through with the two FEAS facts: an integer flag set to a literal keeps its value, an unchanged comparison keeps '
    'its truth value) -- so wrong numbers are never returned after non-convergence; accessors throw unless computed; (D2) exact '
    'conventions of the Hessenberg eigen-solver: a real eigenvalue is stored by assigning a real-typed expression (imaginary part '
    'exactly zero by conversion), a complex pair is stored as (a, z) at i and (a, -z) at i+1 with the same a and the same variable '
    'z, z is non-negative in the sign domain (product of a maximum of absolute values and a square root), the later rescaling '
    'multiplies by a non-negative real; the consumer (the general solver base) uses exact tests; (D3) the classification of a 2x2 '
    'diagonal block is exhaustive and consistent between producer and consumer: the Schur class triangularises the block exactly '
    'when the discriminant is >= 0 (zero included), and the eigen-solver treats a block as a complex pair exactly when its '
    'sub-diagonal entry is non-zero -- so a real double eigenvalue can never be emitted as a pair with zero imaginary part; '
    '(D4) every exceptional shift added to the running total is subtracted from every diagonal entry of the active part (rows '
    '0..iu inclusive) in the same branch -- necessary for the result to be similar to H itself; (D5) every division by the '
    'input scale (largest magnitude, zero for the zero matrix) is unreachable when the scale is zero; (D6) the norm whose vanishing '
    'triggers the zero-matrix short cut of the Schur class covers every entry of a Hessenberg matrix, sub-diagonal included. '
    'The divisor that normalises the input of the tridiagonal and Hessenberg eigen-solvers, evaluated as an expression over its maxCoeff() operands on a magnitude grid 1e-150 .. 1e150, returns the largest magnitude (the deflation tests are not homogeneous: they are relative only on a matrix of largest magnitude one). Does NOT decide backward stability, orthogonality of Z / U, or unit norm of eigenvectors (floating-point magnitudes).')
ASSUMPTIONS = ['sqrt and abs return non-negative values; conversion of a real to std::complex sets the imaginary part to +0']


def _counter_caps(fn):
    """If-statements `counter > bound` whose then-branch leaves the loop, counter being incremented in the function."""
    incs = set()
    for x in fn.walk():
        if x['k'] == 'UnaryOperator' and x.get('op') == '++':
            t = fn.strip(fn.nodes[x['c'][0]])
            if t['k'] == 'DeclRefExpr' and 'var' in t:
                incs.add(t['var'])
    out = []
    for i in fn.walk():
        if i['k'] != 'IfStmt':
            continue
        c = fn.strip(fn.nodes[i['cond']])
        if c['k'] == 'BinaryOperator' and c.get('op') in ('>', '>='):
            l = fn.strip(fn.nodes[c['c'][0]])
            if l['k'] == 'DeclRefExpr' and l.get('var') in incs and any(b['k'] == 'BreakStmt' for b in fn.walk(i['then'])):
                out.append(i)
    return out


def cap_implies_throw(ctx, rule='iteration-cap-implies-throw'):
    n = 0
    for tq in ('Spectra::TridiagEigen::compute', 'Spectra::UpperHessenbergSchur::compute'):
        for fn in ctx.F.insts(tq):
            caps = _counter_caps(fn)
            inst = tq.replace('Spectra::', '')
            if not caps:
                ctx.fail(rule, inst, fn.qname, 'no iteration cap found: the iteration may not terminate / never reports failure')
                continue
            recs = [r for r in ctx.F.records.values() if r['qname'] == fn.record and not r['dep']]
            flags = [f['name'] for f in recs[0]['fields'] if f['type'] == 'bool']
            if len(flags) != 1:
                raise AnalysisBroken('%s: computed flag not identified' % fn.record)
            flag = flags[0]

            def sets_flag(x):
                return x['k'] == 'BinaryOperator' and x.get('op') == '=' and fn.field_name(fn.nodes[x['c'][0]]) == flag and \
                    sym(fn, x['c'][1], inline=False) == ('lit', 'true')
            for cap in caps:
                n += 1
                # start at the first element of the then-branch, knowing the cap condition holds
                first = None
                for x in fn.walk(cap['then']):
                    p = fn.elem_pos.get(x['id'])
                    if p is not None:
                        first = p if first is None else first
                        break
                brk = [b for b in fn.cfg['blocks'] if b.get('termk') == 'BreakStmt' and fn.within(b.get('term'), cap['then'])]
                if not brk:
                    raise AnalysisBroken('%s: break of the cap not found in the CFG' % fn.qname)
                b = brk[0]
                # begin just before the block that ends in the break (so that `info = 1` is seen)
                start = (b['id'], -1)
                hit = paths.search(fn, [start], stop=lambda x: x['k'] == 'CXXThrowExpr', target=sets_flag, feas=True,
                                   assume=[(fn.nodes[cap['cond']], True)])
                thrown = paths.search(fn, [start], stop=lambda x: False, target=lambda x: x['k'] == 'CXXThrowExpr', feas=True,
                                      assume=[(fn.nodes[cap['cond']], True)])
                ok = hit is None and thrown is not None
                ctx.check(ok, rule, inst, fn.qname,
                          'cap `%s` => throw on every path, `%s` never set' % (fn.s(cap['cond']), flag) if ok else
                          ('after the iteration cap `%s` is hit a path sets `%s = true` without throwing: unconverged numbers are returned' % (fn.s(cap['cond']), flag)
                           if hit is not None else 'the iteration cap does not lead to a throw'), path=hit)
    if n < 2:
        raise AnalysisBroken('only %d iteration caps analysed' % n)
    # accessors throw unless computed
    for tq in ('Spectra::TridiagEigen', 'Spectra::UpperHessenbergSchur', 'Spectra::UpperHessenbergEigen'):
        for acc in ('eigenvalues', 'eigenvectors', 'matrix_T', 'matrix_U'):
            for fn in ctx.F.insts(tq + '::' + acc, required=False):
                rets = paths.positions_of(fn, lambda x: x['k'] == 'ReturnStmt')
                gs = [i for i in fn.walk() if i['k'] == 'IfStmt' and any(y['k'] == 'CXXThrowExpr' for y in fn.walk(i['then']))]
                ok = bool(gs) and sym(fn, gs[0]['cond'], inline=False)[0] == 'u!' and \
                    all(paths.dominated_by(fn, r, lambda x, g=gs[0]: fn.within(x, g['cond'])) for r in rets)
                ctx.check(ok, rule, '%s::%s' % (tq.replace('Spectra::', ''), acc), fn.qname,
                          'throws unless the decomposition was computed' if ok else 'returns results without testing the computed flag')


def _sign(fn, t, env):
    """Sign of a normal form in {'>=0', '<=0', '?'} under env: name -> sign."""
    if not isinstance(t, tuple):
        return '?'
    h = t[0]
    if h == 'lit':
        try:
            return '>=0' if float(t[1]) >= 0 else '<=0'
        except ValueError:
            return '?'
    if h == 'L' and t[1] in env:
        return env[t[1]]
    if h == 'call' and t[1] in ('abs', 'sqrt', 'fabs', 'norm', 'epsilon', 'min'):
        return '>=0'          # numeric_limits / NumTraits epsilon() and min() are positive constants
    if h == 'call' and t[1] in ('max',) and len(t) == 4:
        a, b = _sign(fn, t[2], env), _sign(fn, t[3], env)
        return '>=0' if '>=0' in (a, b) else '?'
    if h in ('maxCoeff',) and isinstance(t[1], tuple) and t[1][0] == 'cwiseAbs':
        return '>=0'
    if h == '*' and len(t) == 3:
        a, b = _sign(fn, t[1], env), _sign(fn, t[2], env)
        if a == '?' or b == '?':
            return '?'
        return '>=0' if a == b else '<=0'
    if h == 'u-':
        a = _sign(fn, t[1], env)
        return {'>=0': '<=0', '<=0': '>=0'}.get(a, '?')
    return '?'


def exact_conventions(ctx, rule='exact-real-and-conjugate-pair-convention'):
    fns = ctx.F.insts('Spectra::UpperHessenbergEigen::compute')
    for fn in fns:
        problems = []
        recs = [r for r in ctx.F.records.values() if r['qname'] == fn.record and not r['dep']]
        cvec = [f['name'] for f in recs[0]['fields'] if f['type'].startswith('Eigen::Matrix<std::complex') and ', -1, 1' in f['type']]
        if len(cvec) != 1:
            raise AnalysisBroken('%s: eigenvalue field not identified' % fn.record)
        ev = cvec[0]
        writes = []
        for x in fn.walk():
            if x['k'] in ('BinaryOperator', 'CXXOperatorCallExpr') and x.get('op') == '=':
                t = sym(fn, x, inline=False)
                if t[1][0] in ('coeffRef', '[]', '()') and t[1][1] == ('F', ev):
                    writes.append((x, t))
        if len(writes) != 3:
            problems.append('%d element writes of the eigenvalue vector (expected 3: real, pair first, pair second)' % len(writes))
        else:
            reals, pairs = [], []
            for x, t in writes:
                rhs = fn.call_args(x)[1] if x['k'] == 'CXXOperatorCallExpr' else fn.nodes[x['c'][1]]
                r = fn.strip(rhs, explicit_casts=False)
                if t[2][0] == 'ctor' and 'complex' in t[2][1]:
                    pairs.append((t[1][2], t[2][2], t[2][3]))
                else:
                    # real branch: the assigned expression has a real type
                    ty = r.get('t', '')
                    # look through the implicit conversion to complex
                    inner = r
                    while inner is not None and inner['k'] in ('CXXConstructExpr', 'ImplicitCastExpr', 'MaterializeTemporaryExpr', 'CXXBindTemporaryExpr', 'ExprWithCleanups') and inner.get('c'):
                        inner = fn.nodes[inner['c'][0]]
                    reals.append((t[1][2], inner.get('t', '')))
            if len(reals) != 1 or reals[0][1] not in ('double', 'float', 'long double', 'const double', 'const float', 'const long double'):
                problems.append('the real branch does not assign a real-typed value (%s)' % reals)
            if len(pairs) != 2:
                problems.append('%d complex constructions (expected 2)' % len(pairs))
            else:
                (i0, a0, z0), (i1, a1, z1) = pairs
                if i1 != ('+', i0, ('lit', '1')) and i1 != ('+', ('lit', '1'), i0):
                    problems.append('pair is not stored at adjacent positions i, i+1')
                if a0 != a1:
                    problems.append('the two members of a pair have different real parts')
                if not (z1 == ('u-', z0)):
                    problems.append('second member is (a, %s), not the exact conjugate (a, -%s)' % (show(z1), show(z0)))
                # z >= 0: every assignment of the local z is a product of non-negative factors
                if z0[0] == 'L':
                    zas = [sym(fn, x, inline=False) for x in fn.walk() if x['k'] == 'BinaryOperator' and x.get('op') == '=' and sym(fn, x['c'][0], inline=False) == z0]
                    env = {}
                    for d in fn.walk():
                        if d['k'] == 'DeclStmt':
                            for dd in d['decls']:
                                if 'init' in dd:
                                    env[fn.locals[dd['var']]['name']] = _sign(fn, sym(fn, dd['init'], inline=False), env)
                    if not zas or any(_sign(fn, a_[2], env) != '>=0' for a_ in zas):
                        problems.append('imaginary part %s is not provably non-negative (%s)' % (show(z0), [show(a[2]) for a in zas]))
                else:
                    problems.append('imaginary part is not a variable')
        # rescale by a non-negative real
        resc = [sym(fn, x, inline=False) for x in fn.walk() if x['k'] in ('CXXOperatorCallExpr', 'CompoundAssignOperator') and x.get('op') == '*=']
        for t in resc:
            if t[1] == ('F', ev):
                env = {}
                for d in fn.walk():
                    if d['k'] == 'DeclStmt':
                        for dd in d['decls']:
                            if 'init' in dd:
                                env[fn.locals[dd['var']]['name']] = _sign(fn, sym(fn, dd['init'], inline=False), env)
                if _sign(fn, t[2], env) != '>=0':
                    problems.append('eigenvalues rescaled by %s, not provably a non-negative real (would flip the pair order)' % show(t[2]))
        # consumer: block is complex iff the sub-diagonal entry is non-zero (exact test)
        whiles = [x for x in fn.walk() if x['k'] == 'IfStmt']
        cls = [sym(fn, w['cond'], inline=False) for w in whiles]
        okc = any(c[0] == '||' and any(isinstance(d, tuple) and d[0] == '==' and ('lit', '0') in d and any(isinstance(e, tuple) and e[0] == 'coeff' for e in d[1:]) for d in c[1:]) for c in cls)
        if not okc:
            problems.append('real / complex classification is not the exact test `T(i+1, i) == 0`')
        ctx.check(not problems, rule, 'UpperHessenbergEigen::compute', fn.qname,
                  'real: real-typed assignment; pair: (a, z), (a, -z) at i, i+1 with z >= 0; rescale by a non-negative real' if not problems else '; '.join(problems))
    # consumers in the general solver base use exact tests
    for name, want in (('is_complex', ('!=', ('imag', None), ('lit', '0'))), ('is_conj', None)):
        for fn in ctx.F.insts('Spectra::GenEigsBase::' + name):
            rets = [x for x in fn.walk() if x['k'] == 'ReturnStmt']
            t = sym(fn, rets[0]['value'], inline=False)
            if name == 'is_complex':
                ok = t[0] == '!=' and any(isinstance(a, tuple) and a[0] == 'imag' for a in t[1:]) and ('lit', '0') in t
            else:
                ok = t[0] == '==' and any(isinstance(a, tuple) and a[0] == 'call' and a[1] == 'conj' for a in t[1:])
            ctx.check(ok, rule, 'GenEigsBase::' + name, fn.qname, 'exact test: %s' % show(t) if ok else 'inexact or different test: %s' % show(t))


def block_classification(ctx, rule='2x2-block-classification-exhaustive'):
    for fn in ctx.F.insts('Spectra::UpperHessenbergSchur::split_off_two_rows'):
        problems = []
        ifs = [i for i in fn.walk() if i['k'] == 'IfStmt']
        tri = None
        for i in ifs:
            # the branch that zeroes the sub-diagonal entry
            for x in fn.walk(i['then']):
                if x['k'] in ('BinaryOperator', 'CXXOperatorCallExpr') and x.get('op') == '=':
                    t = sym(fn, x, inline=False)
                    if t[2] == ('lit', '0') and t[1][0] == 'coeffRef' and t[1][3] == ('-', ('P', fn.locals[fn.params[0]]['name']), ('lit', '1')):
                        tri = i
        if tri is None:
            problems.append('no branch triangularises the block')
        else:
            c = sym(fn, tri['cond'], inline=False)
            # discriminant local
            if not (c[0] == '<=' and c[1] == ('lit', '0') and c[2][0] == 'L'):
                problems.append('block is triangularised under `%s`, not under discriminant >= 0: a zero discriminant (real double eigenvalue) is left as a 2x2 block and reported as a complex pair with zero imaginary part' % fn.s(tri['cond']))
            else:
                q = c[2][1]
                defs = [sym(fn, d['init'], inline=False) for x in fn.walk() if x['k'] == 'DeclStmt' for d in x['decls'] if 'init' in d and fn.locals[d['var']]['name'] == q]
                if len(defs) != 1 or defs[0][0] != '+':
                    problems.append('discriminant is not p*p + T(iu,iu-1)*T(iu-1,iu)')
            # sqrt argument cannot be negative in that branch
            for x in fn.walk(tri['then']):
                if x['k'] == 'CallExpr' and x.get('callee') == 'sqrt':
                    a = sym(fn, fn.call_args(x)[0], inline=False)
                    if not (a[0] == 'call' and a[1] == 'abs') and not (c[0] == '<=' and a == c[2]):
                        problems.append('sqrt of %s' % show(a))
        ctx.check(not problems, rule, 'UpperHessenbergSchur::split_off_two_rows', fn.qname,
                  'block reduced to triangular form exactly when the discriminant is >= 0 (zero included)' if not problems else '; '.join(problems))


def kept_block_is_a_complex_pair(ctx, rule='kept-2x2-block-emitted-as-complex-pair'):
    """Three places classify a diagonal 2x2 block of the quasi-triangular factor and must agree.  The Schur class keeps the block
    iff ITS discriminant p^2 + bc is negative.  The Hessenberg eigen-solver recognises a kept block by its non-zero sub-diagonal
    entry and stores the pair (re, +z), (re, -z) with z = sqrt|p'^2 + b'c'| recomputed from rescaled operands -- a differently
    rounded expression that can come out exactly zero for a (nearly) defective block.  The eigenvector routines classify by
    `imaginary part == 0` and then back-substitute as if T were triangular at that position, ignoring the non-zero sub-diagonal
    entry: wrong eigenvectors for the block and for every column whose back-substitution passes through it.  So: in the branch
    that handles a kept block, the imaginary part that is stored is guaranteed non-zero -- the store is dominated by a test of
    z against zero whose true branch assigns z a positive quantity."""
    from . import paths
    fns = ctx.F.insts('Spectra::UpperHessenbergEigen::compute')
    if not fns:
        raise AnalysisBroken('UpperHessenbergEigen::compute not instantiated')
    seen = set()
    n = 0
    for fn in fns:
        if fn.mangled in seen or not fn.cfg:
            continue
        seen.add(fn.mangled)
        # stores  m_eivalues(i) = Complex(re, z)  with a non-literal imaginary part
        stores = []
        for x in fn.walk():
            if x['k'] in ('BinaryOperator', 'CXXOperatorCallExpr') and x.get('op') == '=':
                t = sym(fn, x, inline=False)
                if isinstance(t[1], tuple) and t[1][0] in ('coeffRef', '()', '[]') and t[1][1] == ('F', 'm_eivalues') and isinstance(t[2], tuple) and t[2][0] == 'ctor' and len(t[2]) == 4:
                    im = t[2][3]
                    if im[0] == 'u-':
                        im = im[1]
                    if im[0] == 'L':
                        stores.append((x, im))
        if len(stores) < 2:
            raise AnalysisBroken('%s: stores of a complex pair not found' % fn.qname)
        n += 1
        probs = []
        for x, im in stores:
            # a test  z == 0 / z <= 0 / !(z > 0)  whose true branch assigns z a positive product, dominating the store
            ok = False
            for i in fn.walk():
                if i['k'] != 'IfStmt':
                    continue
                c = sym(fn, i['cond'], inline=False)
                zero_test = (c[0] == '==' and im in c[1:] and ('lit', '0') in c[1:]) or (c[0] == '<=' and c[1] == im and c[2] == ('lit', '0')) or \
                    (c[0] == '!' and isinstance(c[1], tuple) and c[1][0] == '<' and c[1][1] == ('lit', '0') and c[1][2] == im)
                if not zero_test:
                    continue
                asg = [y for y in fn.walk(i['then']) if y['k'] == 'BinaryOperator' and y.get('op') == '=' and sym(fn, y['c'][0], inline=False) == im]
                if len(asg) != 1:
                    continue
                rhs = sym(fn, asg[0]['c'][1], inline=False)
                factors = list(rhs[1:]) if rhs[0] == '*' else [rhs]

                def positive(u):
                    if u[0] == 'lit':
                        try:
                            return float(u[1]) > 0
                        except ValueError:
                            return False
                    if u[0] == 'call' and u[1] in ('epsilon', 'min', 'abs', 'max', 'lowest') and u[1] != 'lowest':
                        return u[1] in ('epsilon', 'min') or True
                    if u[0] == 'L' and u[1] in ('maxval',):
                        return True
                    return False
                if all(positive(u) for u in factors) and any(u[0] != 'call' or u[1] != 'abs' for u in factors) and \
                        paths.dominated_by(fn, fn.pos_of(x), lambda n_, i=i: fn.within(n_, i['cond'])):
                    ok = True
            if not ok:
                probs.append('`%s`' % fn.s(x)[:60])
        ctx.check(not probs, rule, 'UpperHessenbergEigen::compute', fn.qname,
                  'every complex pair stored for a kept 2x2 block has an imaginary part that is tested against zero and replaced by a positive rounding-level quantity' if not probs else
                  'the imaginary part stored by %s is the recomputed sqrt|p^2 + bc|, which is exactly zero for a (nearly) defective block although the Schur factor keeps the block (non-zero sub-diagonal '
                  'entry): the eigenvector routines classify by `imag == 0`, take the pair for two real eigenvalues and back-substitute as if T were triangular there -- wrong eigenvectors '
                  '(residual O(1)) for the block and for the columns that pass through it' % ', '.join(probs[:2]))
    if n < 1:
        raise AnalysisBroken('no instantiation analysed')


def exceptional_shift_accounting(ctx, rule='exceptional-shift-covers-active-diagonal'):
    """Whenever an exceptional shift s is added to the running total (which is added back to a diagonal entry when its row
    converges), the same s is subtracted from EVERY diagonal entry of the active part, rows 0..iu inclusive -- otherwise the
    result is similar to H + O(|s|), not to H.  Pairing + range agreement between the sibling branches."""
    fns = ctx.F.insts('Spectra::UpperHessenbergSchur::compute_shift')
    for fn in fns:
        pn = {fn.locals[v]['name']: fn.locals[v]['type'] for v in fn.params}
        acc = [n for n, t in pn.items() if t.endswith('&') and not t.startswith('const') and t.split()[0] in ('double', 'float', 'long')]
        iu = [fn.locals[v]['name'] for v in fn.params][0]
        adds = [x for x in fn.walk() if x['k'] == 'CompoundAssignOperator' and x.get('op') == '+=' and sym(fn, x['c'][0], inline=False)[0] == 'P' and
                sym(fn, x['c'][0], inline=False)[1] in acc]
        if len(adds) < 2:
            raise AnalysisBroken('%s: %d accumulations of an exceptional shift (2 confirmed by hand)' % (fn.qname, len(adds)))
        for k, a in enumerate(adds):
            amount = sym(fn, a['c'][1], inline=False)
            # the branch (then-block of the nearest enclosing if) that contains the accumulation
            scope = None
            for anc in fn.ancestors(a):
                if anc['k'] == 'IfStmt' and fn.within(a, anc['then']):
                    scope = anc['then']
                    break
            if scope is None:
                scope = fn.body
            ok = False
            why = 'no subtraction of %s from the diagonal found in the same branch' % show(amount)
            for x in fn.walk(scope):
                if x['k'] not in ('CompoundAssignOperator', 'CXXOperatorCallExpr') or x.get('op') != '-=':
                    continue
                t = sym(fn, x, inline=False)
                if t[2] != amount:
                    continue
                lhs = t[1]
                loops = [l for l in fn.ancestors(x) if l['k'] == 'ForStmt' and fn.within(l, scope)]
                if loops and lhs[0] in ('coeffRef', '()') and lhs[1] == ('F', 'm_T') and len(lhs) == 4 and lhs[2] == lhs[3]:
                    lp = loops[0]
                    init = fn.node(lp.get('init', -1))
                    c = sym(fn, lp['cond'], inline=False)
                    lo = sym(fn, init['decls'][0]['init'], inline=False) if init is not None and init['k'] == 'DeclStmt' else None
                    upto = None
                    if c[0] == '<=' and c[1] == lhs[2]:
                        upto = c[2]
                    elif c[0] == '<' and c[1] == lhs[2] and c[2] == ('+', ('P', iu), ('lit', '1')):
                        upto = ('P', iu)
                    if lo == ('lit', '0') and upto == ('P', iu):
                        ok = True
                    else:
                        why = 'the shift is subtracted from rows [%s, %s] only, not from 0..%s' % (show(lo) if lo else '?', show(upto) if upto else show(c), iu)
                elif lhs[0] in ('array', 'head') :
                    h = lhs[1] if lhs[0] == 'array' else lhs
                    if h[0] == 'head' and h[1] == ('diagonal', ('F', 'm_T')):
                        if h[2] in (('+', ('P', iu), ('lit', '1')), ('+', ('lit', '1'), ('P', iu))):
                            ok = True
                        else:
                            why = 'the shift is subtracted from the first %s diagonal entries, not from all %s + 1 rows of the active part' % (show(h[2]), iu)
            ctx.check(ok, rule, 'UpperHessenbergSchur::compute_shift#%d' % (k + 1), fn.qname,
                      'shift %s accumulated and subtracted from rows 0..%s' % (show(amount), iu) if ok else why)


def scale_divisors_guarded(ctx, rule='scale-divisor-guarded'):
    """The decompositions scale their input by its largest magnitude.  That scale is zero for the zero matrix (which the
    property's quantifier names), so every division by it must be unreachable when it is zero: dominated by a test of the scale
    whose true branch leaves the function, or enclosed in a branch that tests it positive / non-zero.  Sibling agreement: the
    classes that scale must agree on guarding."""
    n = 0
    for cls in ('Spectra::TridiagEigen', 'Spectra::UpperHessenbergEigen', 'Spectra::UpperHessenbergSchur'):
        seen = set()
        for fn in ctx.F.concrete():
            if fn.cls != cls or not fn.cfg or fn.mangled in seen or fn.name != 'compute':
                continue
            seen.add(fn.mangled)
            scales = {}
            positive = set()        # scales bounded below by a positive literal: never zero
            for x in fn.walk():
                if x['k'] == 'DeclStmt':
                    for d in x['decls']:
                        if 'init' in d and 'var' in d:
                            t = show(sym(fn, d['init']))
                            if 'maxCoeff' in t and fn.locals[d['var']]['type'].replace('const ', '') in ('double', 'float', 'long double'):
                                scales[d['var']] = fn.locals[d['var']]['name']
                                ts = sym(fn, d['init'])
                                if ts[0] == 'call' and ts[1] == 'max' and any(u[0] == 'lit' and float(u[1]) > 0 for u in ts[2:] if isinstance(u, tuple)):
                                    positive.add(d['var'])
            for v, nm in scales.items():
                divs = []
                for x in fn.walk():
                    if x['k'] in ('BinaryOperator', 'CXXOperatorCallExpr', 'CompoundAssignOperator') and x.get('op') in ('/', '/='):
                        ops = fn.call_args(x) if x['k'] == 'CXXOperatorCallExpr' else [fn.nodes[c] for c in x['c']]
                        r = fn.strip(ops[-1]) if ops else None
                        if r is not None and r['k'] == 'DeclRefExpr' and r.get('var') == v:
                            divs.append(x)
                if not divs:
                    continue
                n += 1
                if v in positive:
                    ctx.ok(rule, '%s::compute/%s' % (cls.replace('Spectra::', ''), nm), fn.qname, 'the scale is bounded below by a positive literal: never zero')
                    continue
                guards = []
                for i in fn.walk():
                    if i['k'] == 'IfStmt' and any(y['k'] == 'DeclRefExpr' and y.get('var') == v for y in fn.walk(i['cond'])):
                        c = sym(fn, i['cond'], inline=False)
                        if c[0] in ('<', '<=', '==', '!='):
                            guards.append((i, c))
                bad = []
                for dv in divs:
                    ok = False
                    for (i, c) in guards:
                        scale_small = (c[0] in ('<', '<=') and c[1] == ('L', nm)) or (c[0] == '==' and ('L', nm) in c[1:])
                        scale_big = (c[0] in ('<', '<=') and c[2] == ('L', nm) and c[0] == '<') or (c[0] == '!=' and ('L', nm) in c[1:] and ('lit', '0') in c[1:])
                        if scale_small:
                            # early exit: the true branch leaves, and the test dominates the division
                            body = fn.nodes[i['then']]
                            kids = fn.kids(body) if body['k'] == 'CompoundStmt' else [body]
                            leaves = bool(kids) and (kids[-1]['k'] == 'ReturnStmt' or any(y['k'] == 'CXXThrowExpr' for y in fn.walk(kids[-1])))
                            if leaves and not fn.within(dv, i['then']) and paths.dominated_by(fn, fn.pos_of(dv), lambda n_, i=i: fn.within(n_, i['cond'])):
                                ok = True
                            if i.get('else', -1) is not None and i.get('else', -1) >= 0 and fn.within(dv, i['else']):
                                ok = True
                        if scale_big and fn.within(dv, i['then']):
                            ok = True
                    if not ok:
                        bad.append(fn.s(dv['id'])[:50])
                ctx.check(not bad, rule, '%s::compute/%s' % (cls.replace('Spectra::', ''), nm), fn.qname,
                          'every division by the scale is unreachable when the scale is zero (%d divisions)' % len(divs) if not bad else
                          'division by the input scale `%s` without a zero test: for the zero matrix `%s` is 0/0 = NaN and the iteration runs on NaNs until its cap' % (nm, bad[0]))
    if n < 2:
        raise AnalysisBroken('only %d scaled decompositions found (TridiagEigen and UpperHessenbergEigen confirmed)' % n)


def scale_is_largest_magnitude(ctx, rule='input-normalised-to-unit-magnitude'):
    """The tridiagonal and Hessenberg eigen-solvers run their sweeps on input / scale.  Their deflation tests are not homogeneous
    (|e| <= eps * sqrt(|d_i| + |d_i+1|), absolute floors), so they mean "negligible relative to the matrix" only if the scaled
    matrix has largest magnitude exactly one: the divisor must BE the largest magnitude of the entries, for small-norm input as
    well as for large (the property quantifies over scalings down to 1e-150).  The divisor's defining expression is extracted
    (locals inlined) and evaluated with its maxCoeff() leaves set to magnitudes between 1e-150 and 1e150: it must return their
    maximum every time."""
    n = 0
    for cls in ('Spectra::TridiagEigen', 'Spectra::UpperHessenbergEigen', 'Spectra::UpperHessenbergSchur'):
        seen = set()
        for fn in ctx.F.concrete():
            if fn.cls != cls or not fn.cfg or fn.mangled in seen or fn.name != 'compute' or not fn.params:
                continue
            seen.add(fn.mangled)
            inst = '%s::compute' % cls.replace('Spectra::', '')
            # divisions  <field> = <input expression> / S
            divisors = {}
            for x in fn.walk():
                if x['k'] in ('BinaryOperator', 'CXXOperatorCallExpr') and x.get('op') == '/':
                    ops = fn.call_args(x) if x['k'] == 'CXXOperatorCallExpr' else [fn.nodes[c] for c in x['c']]
                    num = show(sym(fn, ops[0], inline=False)) if ops else ''
                    r = fn.strip(ops[-1]) if ops else None
                    if r is not None and r['k'] == 'DeclRefExpr' and 'var' in r and ('P', fn.locals[fn.params[0]]['name']) in atoms(sym(fn, ops[0], inline=False)):
                        divisors[r['var']] = fn.locals[r['var']]['name']
            if not divisors:
                # sibling disagreement: the other small decompositions (and Eigen's RealSchur, from which this class is adapted)
                # normalise; this one runs its sweeps on the raw input
                n += 1
                ctx.fail(rule, inst, fn.qname,
                         'the input is never divided by its largest magnitude (the sibling decompositions are): the sweeps compare eps times products of two entries and '
                         'form products of three, which underflow for overall scalings well inside the range whose squares are representable (1e-150 in double) -- deflation and '
                         'the start row of the Francis step are then decided on denormal garbage and a wrong factorization is returned without an exception')
                continue
            for v, nm in sorted(divisors.items()):
                init = [d['init'] for x in fn.walk() if x['k'] == 'DeclStmt' for d in x['decls'] if d.get('var') == v and 'init' in d]
                if len(init) != 1:
                    raise AnalysisBroken('%s: scale %s has %d initialisers' % (fn.qname, nm, len(init)))
                t = sym(fn, init[0])
                leaves = []

                def collect(u):
                    if isinstance(u, tuple):
                        if u[0] == 'maxCoeff' or (u[0] == 'call' and u[1] == 'maxCoeff'):
                            if u not in leaves:
                                leaves.append(u)
                            return
                        for w in u[1:]:
                            collect(w)
                collect(t)
                if not leaves:
                    raise AnalysisBroken('%s: scale %s = %s has no maxCoeff() operand' % (fn.qname, nm, show(t)[:80]))

                def evs(u, env):
                    if u in env:
                        return env[u]
                    if u[0] == 'lit':
                        return float(u[1])
                    if u[0] == 'call' and u[1] in ('max', 'min') and len(u) == 4:
                        a, b = evs(u[2], env), evs(u[3], env)
                        return max(a, b) if u[1] == 'max' else min(a, b)
                    if u[0] == 'call' and u[1] == 'abs' and len(u) == 3:
                        return abs(evs(u[2], env))
                    if u[0] in ('+', '*') :
                        vals = [evs(w, env) for w in u[1:]]
                        out = vals[0]
                        for w in vals[1:]:
                            out = out + w if u[0] == '+' else out * w
                        return out
                    raise AnalysisBroken('%s: scale %s: term %s outside the evaluable fragment' % (fn.qname, nm, show(u)[:60]))
                grid = (1e-150, 1e-30, 1e-6, 0.5, 1.0, 2.0, 1e6, 1e30, 1e150)
                bad = None
                import itertools
                for vals in itertools.product(grid, repeat=len(leaves)):
                    got = evs(t, dict(zip(leaves, vals)))
                    if got != max(vals) and bad is None:
                        bad = (vals, got)
                n += 1
                # what was divided is multiplied back: on every normal path from the division to the exit a result is scaled by the same variable
                backs = [x for x in fn.walk() if x['k'] in ('CompoundAssignOperator', 'CXXOperatorCallExpr') and x.get('op') == '*=' and
                         any(y['k'] == 'DeclRefExpr' and y.get('var') == v for y in fn.walk((fn.call_args(x)[-1] if x['k'] == 'CXXOperatorCallExpr' else fn.nodes[x['c'][1]])['id']))]
                dvs = [x for x in fn.walk() if x['k'] in ('BinaryOperator', 'CXXOperatorCallExpr') and x.get('op') == '/' and
                       any(y['k'] == 'DeclRefExpr' and y.get('var') == v for y in fn.walk((fn.call_args(x)[-1] if x['k'] == 'CXXOperatorCallExpr' else fn.nodes[x['c'][1]])['id']))]
                bids = set(b['id'] for b in backs)
                starts = [fn.pos_of(d_) for d_ in dvs if fn.pos_of(d_)]
                hit = paths.search(fn, starts, stop=lambda n_: n_['id'] in bids, target=lambda n_: n_['k'] == 'ReturnStmt', exit_is_target=lambda b: True, normal_only=True) if starts else None
                if not backs or hit is not None:
                    bad = bad or ((), None)
                    ctx.fail(rule, '%s/%s/scaled-back' % (inst, nm), fn.qname, 'a normal path from the division by `%s` to the exit does not multiply a result back by it' % nm)
                    continue
                ctx.check(bad is None, rule, '%s/%s' % (inst, nm), fn.qname,
                          'the divisor `%s` equals the largest of its %d magnitude operand(s) on the whole grid 1e-150 .. 1e150: the sweeps run on a matrix of largest magnitude one' % (nm, len(leaves))
                          if bad is None else
                          'with largest magnitudes %s the input is divided by %g, not by %g: the sweeps then run on an un-normalised matrix and the non-homogeneous deflation tests '
                          '(eps * sqrt(|d_i| + |d_i+1|), absolute floors) are no longer relative to it -- sub-diagonal entries of a small-norm matrix are discarded although they are not negligible' %
                          (bad[0], bad[1], max(bad[0])))
    if n < 3:
        raise AnalysisBroken('only %d input scalings analysed (TridiagEigen, UpperHessenbergEigen and UpperHessenbergSchur confirmed)' % n)


def zero_test_covers_hessenberg(ctx, rule='zero-matrix-test-covers-all-entries'):
    """The Schur class takes a short cut (T = H, U = I) when the 1-norm it computes is exactly zero.  That is only right if the
    norm covers EVERY entry of an upper Hessenberg matrix: rows 0 .. min(n-1, j+1) of column j -- the sub-diagonal included.
    The row range summed for column j is extracted and evaluated for all 1 <= n <= 7, 0 <= j < n."""
    fns = ctx.F.insts('Spectra::UpperHessenbergSchur::upper_hessenberg_l1_norm')
    if not fns:
        raise AnalysisBroken('upper_hessenberg_l1_norm not instantiated')

    def ev(t, env):
        if t[0] == 'lit':
            return int(t[1])
        if t[0] in ('L', 'P'):
            return env[t[1]]
        if t[0] == 'call' and t[1] in ('min', 'max') and len(t) == 4:
            a, b = ev(t[2], env), ev(t[3], env)
            return min(a, b) if t[1] == 'min' else max(a, b)
        if t[0] in ('+', '-') and len(t) == 3:
            a, b = ev(t[1], env), ev(t[2], env)
            return a + b if t[0] == '+' else a - b
        if t[0] in ('rows', 'cols'):
            return env['@n']
        raise AnalysisBroken('row range %s outside the integer domain' % show(t))
    for fn in fns[:1]:
        px = fn.locals[fn.params[0]]['name']
        loops = [x for x in fn.walk() if x['k'] == 'ForStmt']
        adds = [sym(fn, x, inline=False) for x in fn.walk() if x.get('op') == '+=' and x['k'] in ('CompoundAssignOperator', 'CXXOperatorCallExpr', 'BinaryOperator')]
        if len(loops) != 1 or len(adds) != 1:
            raise AnalysisBroken('%s: accumulation not recognised' % fn.qname)
        lp = loops[0]
        init = fn.node(lp['init'])
        jv = fn.locals[init['decls'][0]['var']]['name']
        cond = sym(fn, lp['cond'], inline=False)
        t = adds[0][2]
        # sum(cwiseAbs(VIEW)) with VIEW a head / segment of column j
        view = None
        for y in _walk(t):
            if isinstance(y, tuple) and y[0] in ('segment', 'head') and isinstance(y[1], tuple) and y[1][0] == 'col' and y[1][1] == ('P', px) and y[1][2] == ('L', jv):
                view = y
            elif isinstance(y, tuple) and y[0] == 'col' and y[1] == ('P', px) and y[2] == ('L', jv) and view is None:
                view = ('whole',)
        probs = []
        if 'cwiseAbs' not in show(t) and 'abs' not in show(t):
            probs.append('entries are not taken in absolute value (cancellation can make a non-zero matrix look zero)')
        if view is None:
            raise AnalysisBroken('%s: summed view not recognised: %s' % (fn.qname, show(t)))
        ndecl = {}
        for x in fn.walk():
            if x['k'] == 'DeclStmt':
                for d in x['decls']:
                    if 'init' in d:
                        ndecl[fn.locals[d['var']]['name']] = sym(fn, d['init'], inline=False)
        for n_ in range(1, 8):
            for j in range(n_):
                env = {jv: j, '@n': n_}
                for k_, v in ndecl.items():
                    if isinstance(v, tuple) and v[0] in ('rows', 'cols'):
                        env[k_] = n_
                if view[0] == 'whole':
                    lo, hi = 0, n_
                elif view[0] == 'head':
                    lo, hi = 0, ev(view[2], env)
                else:
                    lo = ev(view[2], env)
                    hi = lo + ev(view[3], env)
                want_hi = min(n_, j + 2)
                if lo > 0 or hi < want_hi:
                    probs.append('n = %d, column %d: rows [%d, %d) are summed, the Hessenberg column has rows [0, %d)' % (n_, j, lo, hi, want_hi))
                if hi > n_:
                    probs.append('n = %d, column %d: the view runs past the column' % (n_, j))
        from .eigsbase import loop_range
        rg = loop_range(fn, lp)
        dims = [k_ for k_, v in ndecl.items() if isinstance(v, tuple) and v[0] in ('rows', 'cols') and v[1] == ('P', px)]
        if rg is None or rg[1] != ('lit', '0') or not (rg[2][0] == 'L' and rg[2][1] in dims or (rg[2][0] in ('rows', 'cols') and rg[2][1] == ('P', px))):
            probs.append('the columns summed are not 0 .. n-1 (%s)' % (rg,))
        ctx.check(not probs, rule, 'UpperHessenbergSchur::upper_hessenberg_l1_norm', fn.qname,
                  'the norm behind the zero-matrix short cut sums |.| over rows 0 .. min(n-1, j+1) of every column j (28 (n, j) cases)' if not probs else '; '.join(probs[:3]))
    # and the short cut is taken on exactly that norm
    for fn in ctx.F.insts('Spectra::UpperHessenbergSchur::compute')[:1]:
        decl = {}
        for x in fn.walk():
            if x['k'] == 'DeclStmt':
                for d in x['decls']:
                    if 'init' in d:
                        decl[fn.locals[d['var']]['name']] = sym(fn, d['init'], inline=False)
        guards = [sym(fn, i['cond'], inline=False) for i in fn.walk() if i['k'] == 'IfStmt']
        nm = [k_ for k_, v in decl.items() if isinstance(v, tuple) and (v[0] == 'upper_hessenberg_l1_norm' or (v[0] == 'call' and v[1] == 'upper_hessenberg_l1_norm'))]
        ok = len(nm) == 1 and any(g[0] == '!=' and ('L', nm[0]) in g[1:] and ('lit', '0') in g[1:] for g in guards) and decl[nm[0]][-1] == ('F', 'm_T')
        ctx.check(ok, rule, 'UpperHessenbergSchur::compute/short-cut', fn.qname,
                  'the iteration is skipped exactly when the 1-norm of the working copy is zero' if ok else 'zero-matrix short cut not recognised')


def _walk(t):
    yield t
    if isinstance(t, tuple):
        for x in t[1:]:
            if isinstance(x, tuple):
                for y in _walk(x):
                    yield y


def run(ctx):
    scale_is_largest_magnitude(ctx)
    scale_divisors_guarded(ctx)
    zero_test_covers_hessenberg(ctx)
    cap_implies_throw(ctx)
    exceptional_shift_accounting(ctx)
    exact_conventions(ctx)
    block_classification(ctx)
    kept_block_is_a_complex_pair(ctx)
