"""C09 -- small dense eigen-decompositions: iteration cap => exception, exact real / conjugate-pair conventions."""
from .facts import AnalysisBroken
from . import paths
from .sym import sym, show

EXPLANATION = (
    'Path and sign-domain rules over the CFGs of the instantiated TridiagEigen, UpperHessenbergSchur and UpperHessenbergEigen. '
    'Decides: (D1) on every path on which an iteration-cap test succeeds, a throw is reached and the `computed` flag is never set '
    '(must-pass-through with the two FEAS facts: an integer flag set to a literal keeps its value, an unchanged comparison keeps '
    'its truth value) -- so wrong numbers are never returned after non-convergence; accessors throw unless computed; (D2) exact '
    'conventions of the Hessenberg eigen-solver: a real eigenvalue is stored by assigning a real-typed expression (imaginary part '
    'exactly zero by conversion), a complex pair is stored as (a, z) at i and (a, -z) at i+1 with the same a and the same variable '
    'z, z is non-negative in the sign domain (product of a maximum of absolute values and a square root), the later rescaling '
    'multiplies by a non-negative real; the consumer (the general solver base) uses exact tests; (D3) the classification of a 2x2 '
    'diagonal block is exhaustive and consistent between producer and consumer: the Schur class triangularises the block exactly '
    'when the discriminant is >= 0 (zero included), and the eigen-solver treats a block as a complex pair exactly when its '
    'sub-diagonal entry is non-zero -- so a real double eigenvalue can never be emitted as a pair with zero imaginary part; '
    '(D4) every exceptional shift added to the running total is subtracted from every diagonal entry of the active part (rows '
    '0..iu inclusive) in the same branch -- necessary for the result to be similar to H itself. '
    'Does NOT decide backward stability, orthogonality of Z / U, or unit norm of eigenvectors (floating-point magnitudes).')
ASSUMPTIONS = ['sqrt and abs return non-negative values; conversion of a real to std::complex sets the imaginary part to +0']


def _counter_caps(fn):
    """If-statements `counter > bound` whose then-branch leaves the loop, counter being incremented in the function."""
    incs = set()
    for x in fn.walk():
        if x['k'] == 'UnaryOperator' and x.get('op') == '++':
            t = fn.strip(fn.nodes[x['c'][0]])
            if t['k'] == 'DeclRefExpr' and 'var' in t:
                incs.add(t['var'])
    out = []
    for i in fn.walk():
        if i['k'] != 'IfStmt':
            continue
        c = fn.strip(fn.nodes[i['cond']])
        if c['k'] == 'BinaryOperator' and c.get('op') in ('>', '>='):
            l = fn.strip(fn.nodes[c['c'][0]])
            if l['k'] == 'DeclRefExpr' and l.get('var') in incs and any(b['k'] == 'BreakStmt' for b in fn.walk(i['then'])):
                out.append(i)
    return out


def cap_implies_throw(ctx, rule='iteration-cap-implies-throw'):
    n = 0
    for tq in ('Spectra::TridiagEigen::compute', 'Spectra::UpperHessenbergSchur::compute'):
        for fn in ctx.F.insts(tq):
            caps = _counter_caps(fn)
            inst = tq.replace('Spectra::', '')
            if not caps:
                ctx.fail(rule, inst, fn.qname, 'no iteration cap found: the iteration may not terminate / never reports failure')
                continue
            recs = [r for r in ctx.F.records.values() if r['qname'] == fn.record and not r['dep']]
            flags = [f['name'] for f in recs[0]['fields'] if f['type'] == 'bool']
            if len(flags) != 1:
                raise AnalysisBroken('%s: computed flag not identified' % fn.record)
            flag = flags[0]

            def sets_flag(x):
                return x['k'] == 'BinaryOperator' and x.get('op') == '=' and fn.field_name(fn.nodes[x['c'][0]]) == flag and \
                    sym(fn, x['c'][1], inline=False) == ('lit', 'true')
            for cap in caps:
                n += 1
                # start at the first element of the then-branch, knowing the cap condition holds
                first = None
                for x in fn.walk(cap['then']):
                    p = fn.elem_pos.get(x['id'])
                    if p is not None:
                        first = p if first is None else first
                        break
                brk = [b for b in fn.cfg['blocks'] if b.get('termk') == 'BreakStmt' and fn.within(b.get('term'), cap['then'])]
                if not brk:
                    raise AnalysisBroken('%s: break of the cap not found in the CFG' % fn.qname)
                b = brk[0]
                # begin just before the block that ends in the break (so that `info = 1` is seen)
                start = (b['id'], -1)
                hit = paths.search(fn, [start], stop=lambda x: x['k'] == 'CXXThrowExpr', target=sets_flag, feas=True,
                                   assume=[(fn.nodes[cap['cond']], True)])
                thrown = paths.search(fn, [start], stop=lambda x: False, target=lambda x: x['k'] == 'CXXThrowExpr', feas=True,
                                      assume=[(fn.nodes[cap['cond']], True)])
                ok = hit is None and thrown is not None
                ctx.check(ok, rule, inst, fn.qname,
                          'cap `%s` => throw on every path, `%s` never set' % (fn.s(cap['cond']), flag) if ok else
                          ('after the iteration cap `%s` is hit a path sets `%s = true` without throwing: unconverged numbers are returned' % (fn.s(cap['cond']), flag)
                           if hit is not None else 'the iteration cap does not lead to a throw'), path=hit)
    if n < 2:
        raise AnalysisBroken('only %d iteration caps analysed' % n)
    # accessors throw unless computed
    for tq in ('Spectra::TridiagEigen', 'Spectra::UpperHessenbergSchur', 'Spectra::UpperHessenbergEigen'):
        for acc in ('eigenvalues', 'eigenvectors', 'matrix_T', 'matrix_U'):
            for fn in ctx.F.insts(tq + '::' + acc, required=False):
                rets = paths.positions_of(fn, lambda x: x['k'] == 'ReturnStmt')
                gs = [i for i in fn.walk() if i['k'] == 'IfStmt' and any(y['k'] == 'CXXThrowExpr' for y in fn.walk(i['then']))]
                ok = bool(gs) and sym(fn, gs[0]['cond'], inline=False)[0] == 'u!' and \
                    all(paths.dominated_by(fn, r, lambda x, g=gs[0]: fn.within(x, g['cond'])) for r in rets)
                ctx.check(ok, rule, '%s::%s' % (tq.replace('Spectra::', ''), acc), fn.qname,
                          'throws unless the decomposition was computed' if ok else 'returns results without testing the computed flag')


def _sign(fn, t, env):
    """Sign of a normal form in {'>=0', '<=0', '?'} under env: name -> sign."""
    if not isinstance(t, tuple):
        return '?'
    h = t[0]
    if h == 'lit':
        try:
            return '>=0' if float(t[1]) >= 0 else '<=0'
        except ValueError:
            return '?'
    if h == 'L' and t[1] in env:
        return env[t[1]]
    if h == 'call' and t[1] in ('abs', 'sqrt', 'fabs', 'norm'):
        return '>=0'
    if h == 'call' and t[1] in ('max',) and len(t) == 4:
        a, b = _sign(fn, t[2], env), _sign(fn, t[3], env)
        return '>=0' if '>=0' in (a, b) else '?'
    if h in ('maxCoeff',) and isinstance(t[1], tuple) and t[1][0] == 'cwiseAbs':
        return '>=0'
    if h == '*' and len(t) == 3:
        a, b = _sign(fn, t[1], env), _sign(fn, t[2], env)
        if a == '?' or b == '?':
            return '?'
        return '>=0' if a == b else '<=0'
    if h == 'u-':
        a = _sign(fn, t[1], env)
        return {'>=0': '<=0', '<=0': '>=0'}.get(a, '?')
    return '?'


def exact_conventions(ctx, rule='exact-real-and-conjugate-pair-convention'):
    fns = ctx.F.insts('Spectra::UpperHessenbergEigen::compute')
    for fn in fns:
        problems = []
        recs = [r for r in ctx.F.records.values() if r['qname'] == fn.record and not r['dep']]
        cvec = [f['name'] for f in recs[0]['fields'] if f['type'].startswith('Eigen::Matrix<std::complex') and ', -1, 1' in f['type']]
        if len(cvec) != 1:
            raise AnalysisBroken('%s: eigenvalue field not identified' % fn.record)
        ev = cvec[0]
        writes = []
        for x in fn.walk():
            if x['k'] in ('BinaryOperator', 'CXXOperatorCallExpr') and x.get('op') == '=':
                t = sym(fn, x, inline=False)
                if t[1][0] in ('coeffRef', '[]', '()') and t[1][1] == ('F', ev):
                    writes.append((x, t))
        if len(writes) != 3:
            problems.append('%d element writes of the eigenvalue vector (expected 3: real, pair first, pair second)' % len(writes))
        else:
            reals, pairs = [], []
            for x, t in writes:
                rhs = fn.call_args(x)[1] if x['k'] == 'CXXOperatorCallExpr' else fn.nodes[x['c'][1]]
                r = fn.strip(rhs, explicit_casts=False)
                if t[2][0] == 'ctor' and 'complex' in t[2][1]:
                    pairs.append((t[1][2], t[2][2], t[2][3]))
                else:
                    # real branch: the assigned expression has a real type
                    ty = r.get('t', '')
                    # look through the implicit conversion to complex
                    inner = r
                    while inner is not None and inner['k'] in ('CXXConstructExpr', 'ImplicitCastExpr', 'MaterializeTemporaryExpr', 'CXXBindTemporaryExpr', 'ExprWithCleanups') and inner.get('c'):
                        inner = fn.nodes[inner['c'][0]]
                    reals.append((t[1][2], inner.get('t', '')))
            if len(reals) != 1 or reals[0][1] not in ('double', 'float', 'long double', 'const double', 'const float', 'const long double'):
                problems.append('the real branch does not assign a real-typed value (%s)' % reals)
            if len(pairs) != 2:
                problems.append('%d complex constructions (expected 2)' % len(pairs))
            else:
                (i0, a0, z0), (i1, a1, z1) = pairs
                if i1 != ('+', i0, ('lit', '1')) and i1 != ('+', ('lit', '1'), i0):
                    problems.append('pair is not stored at adjacent positions i, i+1')
                if a0 != a1:
                    problems.append('the two members of a pair have different real parts')
                if not (z1 == ('u-', z0)):
                    problems.append('second member is (a, %s), not the exact conjugate (a, -%s)' % (show(z1), show(z0)))
                # z >= 0: z is a local assigned once from a product of non-negative factors
                if z0[0] == 'L':
                    zas = [sym(fn, x, inline=False) for x in fn.walk() if x['k'] == 'BinaryOperator' and x.get('op') == '=' and sym(fn, x['c'][0], inline=False) == z0]
                    env = {}
                    for d in fn.walk():
                        if d['k'] == 'DeclStmt':
                            for dd in d['decls']:
                                if 'init' in dd:
                                    env[fn.locals[dd['var']]['name']] = _sign(fn, sym(fn, dd['init'], inline=False), env)
                    if len(zas) != 1 or _sign(fn, zas[0][2], env) != '>=0':
                        problems.append('imaginary part %s is not provably non-negative (%s)' % (show(z0), [show(a[2]) for a in zas]))
                else:
                    problems.append('imaginary part is not a variable')
        # rescale by a non-negative real
        resc = [sym(fn, x, inline=False) for x in fn.walk() if x['k'] in ('CXXOperatorCallExpr', 'CompoundAssignOperator') and x.get('op') == '*=']
        for t in resc:
            if t[1] == ('F', ev):
                env = {}
                for d in fn.walk():
                    if d['k'] == 'DeclStmt':
                        for dd in d['decls']:
                            if 'init' in dd:
                                env[fn.locals[dd['var']]['name']] = _sign(fn, sym(fn, dd['init'], inline=False), env)
                if _sign(fn, t[2], env) != '>=0':
                    problems.append('eigenvalues rescaled by %s, not provably a non-negative real (would flip the pair order)' % show(t[2]))
        # consumer: block is complex iff the sub-diagonal entry is non-zero (exact test)
        whiles = [x for x in fn.walk() if x['k'] == 'IfStmt']
        cls = [sym(fn, w['cond'], inline=False) for w in whiles]
        okc = any(c[0] == '||' and any(isinstance(d, tuple) and d[0] == '==' and ('lit', '0') in d and any(isinstance(e, tuple) and e[0] == 'coeff' for e in d[1:]) for d in c[1:]) for c in cls)
        if not okc:
            problems.append('real / complex classification is not the exact test `T(i+1, i) == 0`')
        ctx.check(not problems, rule, 'UpperHessenbergEigen::compute', fn.qname,
                  'real: real-typed assignment; pair: (a, z), (a, -z) at i, i+1 with z >= 0; rescale by a non-negative real' if not problems else '; '.join(problems))
    # consumers in the general solver base use exact tests
    for name, want in (('is_complex', ('!=', ('imag', None), ('lit', '0'))), ('is_conj', None)):
        for fn in ctx.F.insts('Spectra::GenEigsBase::' + name):
            rets = [x for x in fn.walk() if x['k'] == 'ReturnStmt']
            t = sym(fn, rets[0]['value'], inline=False)
            if name == 'is_complex':
                ok = t[0] == '!=' and any(isinstance(a, tuple) and a[0] == 'imag' for a in t[1:]) and ('lit', '0') in t
            else:
                ok = t[0] == '==' and any(isinstance(a, tuple) and a[0] == 'call' and a[1] == 'conj' for a in t[1:])
            ctx.check(ok, rule, 'GenEigsBase::' + name, fn.qname, 'exact test: %s' % show(t) if ok else 'inexact or different test: %s' % show(t))


def block_classification(ctx, rule='2x2-block-classification-exhaustive'):
    for fn in ctx.F.insts('Spectra::UpperHessenbergSchur::split_off_two_rows'):
        problems = []
        ifs = [i for i in fn.walk() if i['k'] == 'IfStmt']
        tri = None
        for i in ifs:
            # the branch that zeroes the sub-diagonal entry
            for x in fn.walk(i['then']):
                if x['k'] in ('BinaryOperator', 'CXXOperatorCallExpr') and x.get('op') == '=':
                    t = sym(fn, x, inline=False)
                    if t[2] == ('lit', '0') and t[1][0] == 'coeffRef' and t[1][3] == ('-', ('P', fn.locals[fn.params[0]]['name']), ('lit', '1')):
                        tri = i
        if tri is None:
            problems.append('no branch triangularises the block')
        else:
            c = sym(fn, tri['cond'], inline=False)
            # discriminant local
            if not (c[0] == '<=' and c[1] == ('lit', '0') and c[2][0] == 'L'):
                problems.append('block is triangularised under `%s`, not under discriminant >= 0: a zero discriminant (real double eigenvalue) is left as a 2x2 block and reported as a complex pair with zero imaginary part' % fn.s(tri['cond']))
            else:
                q = c[2][1]
                defs = [sym(fn, d['init'], inline=False) for x in fn.walk() if x['k'] == 'DeclStmt' for d in x['decls'] if 'init' in d and fn.locals[d['var']]['name'] == q]
                if len(defs) != 1 or defs[0][0] != '+':
                    problems.append('discriminant is not p*p + T(iu,iu-1)*T(iu-1,iu)')
            # sqrt argument cannot be negative in that branch
            for x in fn.walk(tri['then']):
                if x['k'] == 'CallExpr' and x.get('callee') == 'sqrt':
                    a = sym(fn, fn.call_args(x)[0], inline=False)
                    if not (a[0] == 'call' and a[1] == 'abs') and not (c[0] == '<=' and a == c[2]):
                        problems.append('sqrt of %s' % show(a))
        ctx.check(not problems, rule, 'UpperHessenbergSchur::split_off_two_rows', fn.qname,
                  'block reduced to triangular form exactly when the discriminant is >= 0 (zero included)' if not problems else '; '.join(problems))


def exceptional_shift_accounting(ctx, rule='exceptional-shift-covers-active-diagonal'):
    """Whenever an exceptional shift s is added to the running total (which is added back to a diagonal entry when its row
    converges), the same s is subtracted from EVERY diagonal entry of the active part, rows 0..iu inclusive -- otherwise the
    result is similar to H + O(|s|), not to H.  Pairing + range agreement between the sibling branches."""
    fns = ctx.F.insts('Spectra::UpperHessenbergSchur::compute_shift')
    for fn in fns:
        pn = {fn.locals[v]['name']: fn.locals[v]['type'] for v in fn.params}
        acc = [n for n, t in pn.items() if t.endswith('&') and not t.startswith('const') and t.split()[0] in ('double', 'float', 'long')]
        iu = [fn.locals[v]['name'] for v in fn.params][0]
        adds = [x for x in fn.walk() if x['k'] == 'CompoundAssignOperator' and x.get('op') == '+=' and sym(fn, x['c'][0], inline=False)[0] == 'P' and
                sym(fn, x['c'][0], inline=False)[1] in acc]
        if len(adds) < 2:
            raise AnalysisBroken('%s: %d accumulations of an exceptional shift (2 confirmed by hand)' % (fn.qname, len(adds)))
        for k, a in enumerate(adds):
            amount = sym(fn, a['c'][1], inline=False)
            # the branch (then-block of the nearest enclosing if) that contains the accumulation
            scope = None
            for anc in fn.ancestors(a):
                if anc['k'] == 'IfStmt' and fn.within(a, anc['then']):
                    scope = anc['then']
                    break
            if scope is None:
                scope = fn.body
            ok = False
            why = 'no subtraction of %s from the diagonal found in the same branch' % show(amount)
            for x in fn.walk(scope):
                if x['k'] not in ('CompoundAssignOperator', 'CXXOperatorCallExpr') or x.get('op') != '-=':
                    continue
                t = sym(fn, x, inline=False)
                if t[2] != amount:
                    continue
                lhs = t[1]
                loops = [l for l in fn.ancestors(x) if l['k'] == 'ForStmt' and fn.within(l, scope)]
                if loops and lhs[0] in ('coeffRef', '()') and lhs[1] == ('F', 'm_T') and len(lhs) == 4 and lhs[2] == lhs[3]:
                    lp = loops[0]
                    init = fn.node(lp.get('init', -1))
                    c = sym(fn, lp['cond'], inline=False)
                    lo = sym(fn, init['decls'][0]['init'], inline=False) if init is not None and init['k'] == 'DeclStmt' else None
                    upto = None
                    if c[0] == '<=' and c[1] == lhs[2]:
                        upto = c[2]
                    elif c[0] == '<' and c[1] == lhs[2] and c[2] == ('+', ('P', iu), ('lit', '1')):
                        upto = ('P', iu)
                    if lo == ('lit', '0') and upto == ('P', iu):
                        ok = True
                    else:
                        why = 'the shift is subtracted from rows [%s, %s] only, not from 0..%s' % (show(lo) if lo else '?', show(upto) if upto else show(c), iu)
                elif lhs[0] in ('array', 'head') :
                    h = lhs[1] if lhs[0] == 'array' else lhs
                    if h[0] == 'head' and h[1] == ('diagonal', ('F', 'm_T')):
                        if h[2] in (('+', ('P', iu), ('lit', '1')), ('+', ('lit', '1'), ('P', iu))):
                            ok = True
                        else:
                            why = 'the shift is subtracted from the first %s diagonal entries, not from all %s + 1 rows of the active part' % (show(h[2]), iu)
            ctx.check(ok, rule, 'UpperHessenbergSchur::compute_shift#%d' % (k + 1), fn.qname,
                      'shift %s accumulated and subtracted from rows 0..%s' % (show(amount), iu) if ok else why)


def run(ctx):
    cap_implies_throw(ctx)
    exceptional_shift_accounting(ctx)
    exact_conventions(ctx)
    block_classification(ctx)
