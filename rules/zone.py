"""ZONE: difference-bound matrices over the integer locals / parameters / integer fields of one function.

A constraint is  x - y <= c  with x, y variables or the constant zero 'Z'.  Used (a) as the fact domain of the
path-feasibility filter (paths.py) and (b) for the index-range analysis of C13 (forward abstract interpretation
with join and widening over the CFG).  Everything is integer arithmetic, so  x < y  is  x - y <= -1.

Variables:  ('v', local/param id) | ('f', field name) | 'Z'.
"""
INF = float('inf')
# optional hook: (function, call node) -> set of field names of *this the call may write (interprocedural effect summary);
# None = assume a non-const member call may write every non-const integer field
CALL_MAY_WRITE = None
INT_TYPES = {'long', 'int', 'const long', 'const int', 'unsigned long', 'unsigned int', 'short', 'bool', 'const bool',
             'const unsigned long', 'const unsigned int', 'long long', 'const long long'}


class DBM:
    __slots__ = ('m', 'bot', '_closed')

    def __init__(self, m=None, bot=False):
        self.m = dict(m) if m else {}
        self.bot = bot
        self._closed = False

    # ------------------------------------------------------------------ basics
    def copy(self):
        d = DBM(self.m, self.bot)
        d._closed = self._closed
        return d

    def vars(self):
        vs = set()
        for (x, y) in self.m:
            vs.add(x)
            vs.add(y)
        return vs

    def get(self, x, y):
        if x == y:
            return 0
        return self.m.get((x, y), INF)

    def add(self, x, y, c):
        """x - y <= c"""
        if self.bot or x == y:
            if x == y and c < 0:
                self.bot = True
            return self
        if c < self.m.get((x, y), INF):
            self.m[(x, y)] = c
            self._closed = False
        return self

    def close(self):
        if self.bot or self._closed:
            return self
        vs = list(self.vars())
        m = self.m
        for k in vs:
            for i in vs:
                ik = m.get((i, k), INF) if i != k else 0
                if ik == INF:
                    continue
                for j in vs:
                    if i == j:
                        continue
                    kj = m.get((k, j), INF) if k != j else 0
                    if kj == INF:
                        continue
                    if ik + kj < m.get((i, j), INF):
                        m[(i, j)] = ik + kj
        for i in vs:
            for j in vs:
                if i != j and m.get((i, j), INF) + m.get((j, i), INF) < 0:
                    self.bot = True
                    return self
        self._closed = True
        return self

    def is_bot(self):
        self.close()
        return self.bot

    def key(self):
        self.close()
        if self.bot:
            return 'BOT'
        return frozenset((k, v) for k, v in self.m.items() if v != INF)

    # ------------------------------------------------------------------ queries
    def upper(self, x, y='Z'):
        """least known c with x - y <= c (INF if none)"""
        self.close()
        if self.bot:
            return -INF
        return self.get(x, y)

    def entails(self, x, y, c):
        """does x - y <= c hold in every point of the zone?"""
        self.close()
        return self.bot or self.get(x, y) <= c

    # ------------------------------------------------------------------ transfer
    def forget(self, x):
        if self.bot:
            return self
        self.close()
        for k in [k for k in self.m if x in k]:
            del self.m[k]
        return self

    def assign_var_plus(self, x, y, c):
        """x := y + c   (y may be x itself, or 'Z' for a constant)"""
        if self.bot:
            return self
        if y == x:
            # shift
            self.close()
            new = {}
            for (a, b), v in self.m.items():
                if a == x and b != x:
                    new[(a, b)] = v + c
                elif b == x and a != x:
                    new[(a, b)] = v - c
                else:
                    new[(a, b)] = v
            self.m = new
            self._closed = False
            return self
        self.forget(x)
        self.add(x, y, c)
        self.add(y, x, -c)
        return self

    def join(self, other):
        if self.bot:
            return other.copy()
        if other.bot:
            return self.copy()
        self.close()
        other.close()
        m = {}
        for k, v in self.m.items():
            w = other.m.get(k, INF)
            if w != INF and v != INF:
                m[k] = max(v, w)
        d = DBM(m)
        return d

    def widen(self, other):
        """self widened by other (other = newer iterate): keep only the constraints of self that other still satisfies."""
        if self.bot:
            return other.copy()
        if other.bot:
            return self.copy()
        self.close()
        other.close()
        m = {}
        for k, v in self.m.items():
            if other.m.get(k, INF) <= v:
                m[k] = v
        return DBM(m)

    def leq(self, other):
        """self included in other"""
        if self.is_bot():
            return True
        if other.is_bot():
            return False
        for k, v in other.m.items():
            if v != INF and self.get(*k) > v:
                return False
        return True

    def __repr__(self):
        if self.bot:
            return 'BOT'
        self.close()
        return '{' + ', '.join('%s-%s<=%s' % (a, b, c) for (a, b), c in sorted(self.m.items(), key=repr) if c != INF) + '}'


# ---------------------------------------------------------------------------------------------------
# linear forms of AST expressions:  (var | 'Z', const)   meaning  var + const
# ---------------------------------------------------------------------------------------------------
def zone_is_ptr(t):
    t = t.rstrip()
    return t.endswith('*') or t.endswith('*const') or t.endswith('* const')


PURE_FORWARDING = ('make_pair', 'make_tuple', 'forward', 'tie', 'min', 'max')
PTR_VARS = None      # hook: fn -> set of local ids of pointer variables modelled as integer "row" variables (packed storage)


def var_of(fn, n):
    """Variable key of a leaf expression, or None."""
    n = fn.strip(n)
    if n is None:
        return None
    if n['k'] == 'DeclRefExpr' and 'var' in n:
        lv = fn.locals[n['var']]
        if PTR_VARS is not None and zone_is_ptr(lv['type']) and n['var'] in PTR_VARS(fn):
            return ('v', n['var'])
        if lv['type'].replace(' &', '') in INT_TYPES and not lv.get('ref'):
            return ('v', n['var'])
        # an integer reference PARAMETER is a variable of its own when it is the only integer reference parameter (it can
        # then alias no other name the function uses: fields are reached through `this`, locals are not visible to the caller)
        if lv['type'].replace(' &', '') in INT_TYPES and lv.get('ref') and n['var'] in fn.params:
            refs = [v for v in fn.params if fn.locals[v].get('ref') and fn.locals[v]['type'].replace(' &', '') in INT_TYPES
                    and not fn.locals[v]['type'].startswith('const ')]
            if len(refs) <= 1:
                return ('v', n['var'])
        return None
    if n['k'] == 'MemberExpr' and n.get('mk') == 'field':
        f = fn.field_name(n)
        if f and n.get('t', '').replace('const ', '') in ('long', 'int', 'unsigned long', 'bool'):
            return ('f', f)
    return None


EXTENT_VALUE = None     # hook: (fn, call node of rows()/cols()/size()) -> (var or 'Z', c) | None


def linear(fn, n):
    """(var or 'Z', c) if the expression is  var + c  /  c ; else None."""
    n = fn.strip(n)
    if n is None:
        return None
    k = n['k']
    if k == 'CXXMemberCallExpr' and EXTENT_VALUE is not None and n.get('callee') in ('rows', 'cols', 'size'):
        r = EXTENT_VALUE(fn, n)
        if r is not None:
            return r
    if k == 'IntegerLiteral':
        return ('Z', int(n['val']))
    if k == 'CXXBoolLiteralExpr':
        return ('Z', 1 if n['val'] == 'true' else 0)
    if 'cval' in n and k not in ('DeclRefExpr', 'MemberExpr'):
        try:
            return ('Z', int(n['cval']))
        except ValueError:
            return None
    v = var_of(fn, n)
    if v is not None:
        return (v, 0)
    if k == 'DeclRefExpr' and 'cval' in n:
        return ('Z', int(n['cval']))
    if k == 'BinaryOperator' and n.get('op') in ('+', '-'):
        a = linear(fn, fn.nodes[n['c'][0]])
        b = linear(fn, fn.nodes[n['c'][1]])
        if a is None or b is None:
            return None
        if n['op'] == '+':
            if a[0] == 'Z':
                return (b[0], a[1] + b[1])
            if b[0] == 'Z':
                return (a[0], a[1] + b[1])
            return None
        if b[0] == 'Z':
            return (a[0], a[1] - b[1])
        return None
    if k == 'UnaryOperator' and n.get('op') == '-':
        a = linear(fn, fn.nodes[n['c'][0]])
        if a and a[0] == 'Z':
            return ('Z', -a[1])
    return None


def const_local_stable(fn, varid):
    """A const local may be replaced by its initialiser only where the initialiser's operands still have the value they had at
    the declaration: True iff no element inside the local's scope (the enclosing compound statement) may write an operand."""
    cache = getattr(fn, '_cl_stable', None)
    if cache is None:
        cache = fn._cl_stable = {}
    if varid in cache:
        return cache[varid]
    res = False
    decl = None
    init = None
    for x in fn.walk():
        if x['k'] == 'DeclStmt':
            for dd in x.get('decls', []):
                if dd.get('var') == varid and 'init' in dd:
                    decl, init = x, dd['init']
    if decl is not None:
        ops = set()
        for y in fn.walk(init):
            v = var_of(fn, y) if y['k'] in ('DeclRefExpr', 'MemberExpr') else None
            if v is not None:
                ops.add(v)
        scope = None
        for a in fn.ancestors(decl):
            if a['k'] in ('CompoundStmt', 'ForStmt', 'WhileStmt', 'DoStmt', 'IfStmt'):
                scope = a
                break
        res = True
        if scope is None:
            res = False
        else:
            cf = const_fields(fn)
            for y in fn.walk(scope['id']):
                if y['id'] == decl['id']:
                    continue
                if y['k'] == 'DeclStmt' and not (y.get('l', 0) > decl.get('l', 0)):
                    # the declaration of an operand itself (it precedes the const local and runs once per activation of the scope)
                    if all(('v', dd.get('var')) in ops or 'var' not in dd for dd in y.get('decls', [])):
                        continue
                try:
                    kv = killed_vars(fn, y)
                except Exception:
                    kv = set()
                for k_ in kv:
                    if isinstance(k_, tuple) and k_[0] == 'fields':
                        for o in ops:
                            if o[0] == 'f' and o[1] not in cf and (k_[1] is None or o[1] in k_[1]):
                                res = False
                    elif k_ in ops:
                        res = False
                if not res:
                    break
    cache[varid] = res
    return res


def _diff_definition(fn, v):
    """(p, q, c) if v is a const local initialised with  p - q + c  (p, q integer variables), else None."""
    if not (isinstance(v, tuple) and v[0] == 'v'):
        return None
    lv = fn.locals[v[1]]
    if not lv.get('const') or lv['kind'] != 'var' or not const_local_stable(fn, v[1]):
        return None
    cache = getattr(fn, '_diffdefs', None)
    if cache is None:
        cache = fn._diffdefs = {}
    if v[1] in cache:
        return cache[v[1]]
    res = None
    for x in fn.walk():
        if x['k'] == 'DeclStmt':
            for d in x.get('decls', []):
                if d.get('var') == v[1] and 'init' in d:
                    from .ranges import linform
                    L = linform(fn, fn.nodes[d['init']]) if False else None
                    # parse  p - q + c  directly (avoid recursion through linform's const-local inlining)
                    res = _parse_diff(fn, fn.nodes[d['init']])
    cache[v[1]] = res
    return res


def _parse_diff(fn, n):
    n = fn.strip(n)
    if n is None or n['k'] != 'BinaryOperator':
        return None
    if n['op'] in ('+', '-'):
        l, r = fn.strip(fn.nodes[n['c'][0]]), fn.strip(fn.nodes[n['c'][1]])
        rl = linear(fn, r)
        if rl is not None and rl[0] == 'Z':
            inner = _parse_diff(fn, l)
            if inner is not None:
                return (inner[0], inner[1], inner[2] + (rl[1] if n['op'] == '+' else -rl[1]))
        if n['op'] == '-':
            a, b = linear(fn, l), linear(fn, r)
            if a and b and a[0] != 'Z' and b[0] != 'Z':
                return (a[0], b[0], a[1] - b[1])
    return None


PTR_ASSUME = None     # hook: (fn, d, comparison node, truth) -> True if it was a comparison of modelled pointers and has been applied
COND_EXTRA = None     # hook: (fn, d, condition node, truth): facts a client analysis attaches to a branch outcome (rules/blockscan.py)


def assume(fn, d, cond, truth):
    """Refine zone d with `cond == truth`.  Returns d (mutated copy semantics are the caller's business)."""
    n = fn.strip(cond)
    if n is None or d.bot:
        return d
    k = n['k']
    if COND_EXTRA is not None:
        COND_EXTRA(fn, d, n, truth)
        if d.bot:
            return d
    if PTR_ASSUME is not None and k == 'BinaryOperator' and n.get('op') in ('<', '<=', '>', '>=', '==', '!=') and PTR_ASSUME(fn, d, n, truth):
        return d
    if k == 'UnaryOperator' and n.get('op') == '!':
        return assume(fn, d, fn.nodes[n['c'][0]], not truth)
    if k == 'BinaryOperator' and n.get('op') in ('&&', '||'):
        op = n['op']
        if (op == '&&' and truth) or (op == '||' and not truth):
            assume(fn, d, fn.nodes[n['c'][0]], truth)
            assume(fn, d, fn.nodes[n['c'][1]], truth)
        return d          # disjunctions: no refinement (sound)
    if k == 'BinaryOperator' and n.get('op') in ('<', '<=', '>', '>=', '==', '!='):
        a = linear(fn, fn.nodes[n['c'][0]])
        b = linear(fn, fn.nodes[n['c'][1]])
        if a is None or b is None:
            return d
        op = n['op']
        if not truth:
            op = {'<': '>=', '<=': '>', '>': '<=', '>=': '<', '==': '!=', '!=': '=='}[op]
        (x, cx), (y, cy) = a, b
        # a const local defined as  p - q + c0  carries the comparison over to (p, q):  (p - q + c0) + cx  op  k
        for (side, other, flip) in ((a, b, False), (b, a, True)):
            dd = _diff_definition(fn, side[0])
            if dd is not None and other[0] == 'Z':
                p_, q_, c0 = dd
                # p - q  op'  other_c - side_c - c0
                k_ = other[1] - side[1] - c0
                op2 = op if not flip else {'<': '>', '<=': '>=', '>': '<', '>=': '<=', '==': '==', '!=': '!='}[op]
                if op2 == '<':
                    d.add(p_, q_, k_ - 1)
                elif op2 == '<=':
                    d.add(p_, q_, k_)
                elif op2 == '>':
                    d.add(q_, p_, -k_ - 1)
                elif op2 == '>=':
                    d.add(q_, p_, -k_)
                elif op2 == '==':
                    d.add(p_, q_, k_)
                    d.add(q_, p_, -k_)
                elif op2 == '!=':
                    d.close()
                    if not d.bot:
                        if d.get(p_, q_) == k_:
                            d.add(p_, q_, k_ - 1)
                        if d.get(q_, p_) == -k_:
                            d.add(q_, p_, -k_ - 1)
        # x + cx  op  y + cy   <=>   x - y  op  cy - cx
        c = cy - cx
        if op == '<':
            d.add(x, y, c - 1)
        elif op == '<=':
            d.add(x, y, c)
        elif op == '>':
            d.add(y, x, -c - 1)
        elif op == '>=':
            d.add(y, x, -c)
        elif op == '==':
            d.add(x, y, c)
            d.add(y, x, -c)
        elif op == '!=':
            d.close()
            if not d.bot:
                if d.get(x, y) == c:          # x - y <= c and != c  =>  <= c - 1
                    d.add(x, y, c - 1)
                if d.get(y, x) == -c:
                    d.add(y, x, -c - 1)
        return d
    # a bare integer / bool variable used as a condition
    v = var_of(fn, n)
    if v is not None and v[0] == 'v' and fn.locals[v[1]].get('const') and fn.locals[v[1]]['type'] in ('const bool', 'bool') and const_local_stable(fn, v[1]):
        # a const bool local IS its initialiser (same convention as for const integer locals in ranges.linform: the
        # operands are loop counters that advance only in the loop step, after every use)
        for x in fn.walk():
            if x['k'] == 'DeclStmt':
                for dd in x.get('decls', []):
                    if dd.get('var') == v[1] and 'init' in dd:
                        ini = fn.strip(fn.nodes[dd['init']])
                        if ini is not None and ini['k'] in ('BinaryOperator', 'UnaryOperator', 'ParenExpr'):
                            assume(fn, d, ini, truth)
    if v is not None:
        if truth:
            if n.get('t', '').replace('const ', '') == 'bool':
                d.add(v, 'Z', 1)
                d.add('Z', v, -1)
        else:
            d.add(v, 'Z', 0)
            d.add('Z', v, 0)
    return d


def const_fields(fn):
    """Names of the fields that are const-qualified where this function mentions them (a member call cannot change them)."""
    c = getattr(fn, '_const_fields', None)
    if c is None:
        c = set()
        for x in fn.nodes:
            if x['k'] == 'MemberExpr' and x.get('mk') == 'field' and x.get('t', '').startswith('const '):
                c.add(x['member'])
        fn._const_fields = c
    return c


def written_var(fn, n):
    """(var key, kind, rhs node) if element node n writes an integer variable: kinds '=', '+=', '-=', '++', '--', 'decl', 'other'."""
    k = n['k']
    if k in ('BinaryOperator', 'CompoundAssignOperator') and n.get('op') in ('=', '+=', '-=', '*=', '/=', '%=', '&=', '|=', '^=', '<<=', '>>='):
        v = var_of(fn, fn.nodes[n['c'][0]])
        if v is not None:
            op = n['op']
            return v, (op if op in ('=', '+=', '-=') else 'other'), fn.nodes[n['c'][1]]
    if k == 'UnaryOperator' and n.get('op') in ('++', '--'):
        v = var_of(fn, fn.nodes[n['c'][0]])
        if v is not None:
            return v, n['op'], None
    return None


def killed_vars(fn, n):
    """Variables (zone keys) that executing element n may change."""
    out = set()
    k = n['k']
    w = written_var(fn, n)
    if w is not None:
        out.add(w[0])
        if w[0][0] == 'v' and zone_is_ptr(fn.locals[w[0][1]]['type']):
            out.add(('pc', w[0][1]))       # column variable of a modelled pointer
    if k == 'DeclStmt':
        for dd in n.get('decls', []):
            if 'var' in dd:
                out.add(('v', dd['var']))
                out.add(('pc', dd['var']))
    if k == 'CallExpr' and n.get('callee') in PURE_FORWARDING and (n.get('cq') or 'std::').startswith('std::'):
        return out      # forwarding-reference parameters of std helpers that only read their arguments
    if k in ('CallExpr', 'CXXMemberCallExpr', 'CXXOperatorCallExpr', 'CXXConstructExpr', 'CXXTemporaryObjectExpr'):
        pm = n.get('pmut')
        args = fn.call_args(n)
        off = 1 if (k == 'CXXOperatorCallExpr' and pm is not None and len(pm) == len(args) - 1) else 0
        for j, a in enumerate(args):
            v = var_of(fn, a)
            jj = j - off
            if v is not None and not (jj < 0 and pm is not None) and (pm is None or jj >= len(pm) or pm[jj] != 'C' or n.get('unresolved')):
                if pm is not None and 0 <= jj < len(pm) and pm[jj] == 'P' and not n.get('unresolved') and v[0] == 'v' and zone_is_ptr(fn.locals[v[1]]['type']):
                    continue
                out.add(v)
        if k == 'CXXMemberCallExpr' and n.get('org') == 'S' and not n.get('cconst'):
            o = fn.call_object(n)
            r = fn.root_of(o) if o is not None else None
            alias_of_this = r is not None and r[0] == 'local' and fn.locals[r[1]].get('ref')
            if o is not None and (fn.strip(o)['k'] == 'CXXThisExpr' or alias_of_this):
                mw = CALL_MAY_WRITE(fn, n) if CALL_MAY_WRITE is not None else None
                out.add(('fields', frozenset(mw) if mw is not None else None))
    return out


PTR_STEP = None      # hook: (fn, d, node) -> True if the element was a write of a modelled pointer and has been applied to d


def step(fn, d, n):
    """Zone after executing CFG element n (statement-level transfer for integer variables)."""
    if d.bot:
        return d
    if PTR_STEP is not None and PTR_STEP(fn, d, n):
        return d
    k = n['k']
    w = written_var(fn, n)
    if w is not None:
        v, kind, rhs = w
        if kind == '++':
            d.assign_var_plus(v, v, 1)
        elif kind == '--':
            d.assign_var_plus(v, v, -1)
        elif kind in ('=', '+=', '-='):
            lin = linear(fn, rhs)
            if kind == '=':
                if lin is not None:
                    d.assign_var_plus(v, lin[0], lin[1])
                else:
                    assign_general(fn, d, v, rhs)
            else:
                if lin is not None and lin[0] == 'Z':
                    d.assign_var_plus(v, v, lin[1] if kind == '+=' else -lin[1])
                else:
                    compound_general(fn, d, v, kind, rhs)
        else:
            d.forget(v)
        return d
    if k == 'DeclStmt':
        for dd in n.get('decls', []):
            if 'var' not in dd:
                continue
            lv = fn.locals[dd['var']]
            if lv['type'] in INT_TYPES:
                v = ('v', dd['var'])
                if 'init' in dd:
                    lin = linear(fn, fn.nodes[dd['init']])
                    if lin is not None:
                        d.assign_var_plus(v, lin[0], lin[1])
                    else:
                        assign_general(fn, d, v, fn.nodes[dd['init']])
                else:
                    d.forget(v)
        return d
    if k == 'CallExpr' and n.get('callee') in PURE_FORWARDING and (n.get('cq') or 'std::').startswith('std::'):
        return d
    if k in ('CallExpr', 'CXXMemberCallExpr', 'CXXOperatorCallExpr', 'CXXConstructExpr', 'CXXTemporaryObjectExpr'):
        pm = n.get('pmut')
        args = fn.call_args(n)
        off = 0
        if k == 'CXXOperatorCallExpr' and pm is not None and len(pm) == len(args) - 1:
            off = 1          # member operator: the first operand is the object, not a parameter
        for j, a in enumerate(args):
            v = var_of(fn, a)
            jj = j - off
            if v is not None and (pm is None or jj < 0 or jj >= len(pm) or pm[jj] != 'C' or n.get('unresolved')):
                if jj < 0 and pm is not None:
                    continue      # an integer variable cannot be the object of a member operator
                if pm is not None and 0 <= jj < len(pm) and pm[jj] == 'P' and not n.get('unresolved') and zone_is_ptr(fn.locals[v[1]]['type']):
                    continue      # a modelled pointer handed over BY VALUE: the callee may change the pointee, not the pointer
                d.forget(v)
        # a non-const member call on this object may change integer fields
        if k == 'CXXMemberCallExpr' and n.get('org') == 'S' and not n.get('cconst'):
            o = fn.call_object(n)
            r = fn.root_of(o) if o is not None else None
            alias_of_this = r is not None and r[0] == 'local' and fn.locals[r[1]].get('ref')
            if o is not None and (fn.strip(o)['k'] == 'CXXThisExpr' or alias_of_this):
                cf = const_fields(fn)
                mw = CALL_MAY_WRITE(fn, n) if CALL_MAY_WRITE is not None else None
                for x in [x for x in d.vars() if isinstance(x, tuple) and x[0] == 'f' and x[1] not in cf]:
                    if mw is None or x[1] in mw:
                        d.forget(x)
        return d
    return d


def bounds(fn, d, n):
    """(lo, hi) integer interval of an expression in zone d (None = unbounded)."""
    n = fn.strip(n)
    if n is None:
        return (None, None)
    lin = linear(fn, n)
    d.close()
    if lin is not None:
        v, c = lin
        if v == 'Z':
            return (c, c)
        hi = d.get(v, 'Z')
        lo = d.get('Z', v)
        return (None if lo == INF else -lo + c, None if hi == INF else hi + c)
    k = n['k']
    if k == 'BinaryOperator' and n.get('op') in ('+', '-', '*', '/'):
        a = bounds(fn, d, fn.nodes[n['c'][0]])
        b = bounds(fn, d, fn.nodes[n['c'][1]])
        op = n['op']
        if op == '-':
            # relational refinement: x - y bounded directly by the zone
            la = linear(fn, fn.nodes[n['c'][0]])
            lb = linear(fn, fn.nodes[n['c'][1]])
            if la and lb:
                up = d.get(la[0], lb[0])
                lo = d.get(lb[0], la[0])
                return (None if lo == INF else -lo + la[1] - lb[1], None if up == INF else up + la[1] - lb[1])
            return (None if a[0] is None or b[1] is None else a[0] - b[1], None if a[1] is None or b[0] is None else a[1] - b[0])
        if op == '+':
            return (None if a[0] is None or b[0] is None else a[0] + b[0], None if a[1] is None or b[1] is None else a[1] + b[1])
        if op == '/' and b[0] is not None and b[0] == b[1] and b[0] > 0:
            q = b[0]

            def div(x):
                return None if x is None else (abs(x) // q) * (1 if x >= 0 else -1)
            return (div(a[0]) if a[0] is None or a[0] >= 0 else -((-a[0] + q - 1) // q) , div(a[1]))
        if op == '*' and None not in a and None not in b:
            ps = [a[0] * b[0], a[0] * b[1], a[1] * b[0], a[1] * b[1]]
            return (min(ps), max(ps))
        return (None, None)
    if k == 'CallExpr' and n.get('callee') in ('min', 'max') and n.get('org') != 'S':
        args = fn.call_args(n)
        if len(args) == 2:
            a, b = bounds(fn, d, args[0]), bounds(fn, d, args[1])
            if n['callee'] == 'min':
                lo = None if a[0] is None or b[0] is None else min(a[0], b[0])
                his = [x for x in (a[1], b[1]) if x is not None]
                return (lo, min(his) if his else None)
            los = [x for x in (a[0], b[0]) if x is not None]
            hi = None if a[1] is None or b[1] is None else max(a[1], b[1])
            return (max(los) if los else None, hi)
    if k == 'ConditionalOperator':
        a, b = bounds(fn, d, fn.nodes[n['c'][1]]), bounds(fn, d, fn.nodes[n['c'][2]])
        return (None if a[0] is None or b[0] is None else min(a[0], b[0]), None if a[1] is None or b[1] is None else max(a[1], b[1]))
    return (None, None)


def rel_upper_bounds(fn, d, n):
    """Upper bounds of an expression relative to variables: set of (var, c) with  expr <= var + c  (incl. ('Z', c))."""
    n = fn.strip(n)
    out = set()
    if n is None:
        return out
    lin = linear(fn, n)
    d.close()
    if lin is not None:
        v, c = lin
        out.add((v, c))
        if v != 'Z':
            for y in list(d.vars()) + ['Z']:
                u = d.get(v, y)
                if u != INF:
                    out.add((y, u + c))
        return out
    k = n['k']
    if k == 'CallExpr' and n.get('callee') == 'min' and n.get('org') != 'S':
        for a in fn.call_args(n):
            out |= rel_upper_bounds(fn, d, a)
        return out
    if k == 'BinaryOperator' and n.get('op') == '/':
        den = bounds(fn, d, fn.nodes[n['c'][1]])
        num = bounds(fn, d, fn.nodes[n['c'][0]])
        if den[0] is not None and den[0] >= 1 and num[0] is not None and num[0] >= 0:
            # t / q <= t - (lo - lo // q)  for t >= lo >= 0, q >= 1   (t - t/q is non-decreasing in t)
            q = den[0]
            gain = num[0] - num[0] // q
            for (v, c) in rel_upper_bounds(fn, d, fn.nodes[n['c'][0]]):
                out.add((v, c - gain))
        b = bounds(fn, d, n)
        if b[1] is not None:
            out.add(('Z', b[1]))
        return out
    if k == 'BinaryOperator' and n.get('op') == '-':
        # a - b  <=  a - lo(b)
        b = bounds(fn, d, fn.nodes[n['c'][1]])
        if b[0] is not None:
            for (v, c) in rel_upper_bounds(fn, d, fn.nodes[n['c'][0]]):
                out.add((v, c - b[0]))
        # a - b with b a variable: (A - x) kept symbolically as ('minus', A, x) is handled by compound_general
        return out
    if k == 'BinaryOperator' and n.get('op') == '+':
        b = bounds(fn, d, fn.nodes[n['c'][1]])
        if b[1] is not None:
            for (v, c) in rel_upper_bounds(fn, d, fn.nodes[n['c'][0]]):
                out.add((v, c + b[1]))
        a = bounds(fn, d, fn.nodes[n['c'][0]])
        if a[1] is not None:
            for (v, c) in rel_upper_bounds(fn, d, fn.nodes[n['c'][1]]):
                out.add((v, c + a[1]))
        return out
    b = bounds(fn, d, n)
    if b[1] is not None:
        out.add(('Z', b[1]))
    return out


def rel_lower_bounds(fn, d, n):
    """set of (var, c) with  expr >= var + c"""
    n = fn.strip(n)
    out = set()
    if n is None:
        return out
    lin = linear(fn, n)
    d.close()
    if lin is not None:
        v, c = lin
        out.add((v, c))
        if v != 'Z':
            for y in list(d.vars()) + ['Z']:
                u = d.get(y, v)       # y - v <= u  =>  v >= y - u
                if u != INF:
                    out.add((y, c - u))
        return out
    if n['k'] == 'CallExpr' and n.get('callee') == 'max' and n.get('org') != 'S':
        for a in fn.call_args(n):
            out |= rel_lower_bounds(fn, d, a)
        return out
    b = bounds(fn, d, n)
    if b[0] is not None:
        out.add(('Z', b[0]))
    return out


def _is_bool(fn, v):
    return isinstance(v, tuple) and v[0] == 'v' and fn.locals[v[1]]['type'].replace('const ', '') == 'bool'


def assign_general(fn, d, v, rhs):
    """x := e for a non-linear e: keep every relational bound that can be derived."""
    if _is_bool(fn, v):
        d.forget(v)
        d.add(v, 'Z', 1)
        d.add('Z', v, 0)
        return d
    ups = rel_upper_bounds(fn, d, rhs)
    los = rel_lower_bounds(fn, d, rhs)
    r = fn.strip(rhs)
    # special form  a - b  with b a variable:  x - a <= -lo(b),  a - x <= hi(b)
    extra = []
    if r is not None and r['k'] == 'BinaryOperator' and r.get('op') == '-':
        la, lb = linear(fn, fn.nodes[r['c'][0]]), linear(fn, fn.nodes[r['c'][1]])
        if la and lb and la[0] != 'Z':
            bb = bounds(fn, d, fn.nodes[r['c'][1]])
            if bb[0] is not None:
                extra.append(('up', la[0], la[1] - bb[0]))
            if bb[1] is not None:
                extra.append(('lo', la[0], la[1] - bb[1]))
    # conditional expression  c ? a : b  -> join of the two assignments under the condition
    if r is not None and r['k'] == 'ConditionalOperator':
        d1, d2 = d.copy(), d.copy()
        assume(fn, d1, fn.nodes[r['c'][0]], True)
        assume(fn, d2, fn.nodes[r['c'][0]], False)
        for dd, e in ((d1, fn.nodes[r['c'][1]]), (d2, fn.nodes[r['c'][2]])):
            lin = linear(fn, e)
            if lin is not None:
                dd.assign_var_plus(v, lin[0], lin[1])
            else:
                assign_general(fn, dd, v, e)
        j = d1.join(d2)
        d.m, d.bot, d._closed = j.m, j.bot, False
        return d
    ups = set(u for u in ups if u[0] != v)
    los = set(l for l in los if l[0] != v)
    d.forget(v)
    for (y, c) in ups:
        d.add(v, y, c)
    for (y, c) in los:
        d.add(y, v, -c)
    for kind, y, c in extra:
        if y == v:
            continue
        if kind == 'up':
            d.add(v, y, c)
        else:
            d.add(y, v, -c)
    return d


def compound_general(fn, d, v, kind, rhs):
    """x += e / x -= e with non-constant e."""
    b = bounds(fn, d, rhs)
    sgn = 1 if kind == '+=' else -1
    # relational: x += e with e <= (A - x) [+ c]  =>  x' <= A + c
    newups = set()
    if kind == '+=':
        for cand in _minus_x_forms(fn, d, rhs, v):
            newups.add(cand)
    lo, hi = b
    if sgn < 0:
        lo, hi = (None if hi is None else -hi), (None if lo is None else -lo)
    d.close()
    old = dict(d.m)
    new = {}
    for (a, bb), c in old.items():
        if a == v and bb != v:
            if hi is not None:
                new[(a, bb)] = c + hi
        elif bb == v and a != v:
            if lo is not None:
                new[(a, bb)] = c - lo
        else:
            new[(a, bb)] = c
    d.m = new
    d._closed = False
    for (y, c) in newups:
        if y != v:
            d.add(v, y, c)
    return d


def _minus_x_forms(fn, d, e, v):
    """Upper bounds (A, c) such that  e <= A - x + c  where x is the variable being incremented (so x + e <= A + c)."""
    e = fn.strip(e)
    out = set()
    if e is None:
        return out
    k = e['k']
    if k == 'CallExpr' and e.get('callee') == 'min' and e.get('org') != 'S':
        for a in fn.call_args(e):
            out |= _minus_x_forms(fn, d, a, v)
        return out
    if k == 'BinaryOperator' and e.get('op') == '/':
        den = bounds(fn, d, fn.nodes[e['c'][1]])
        num = bounds(fn, d, fn.nodes[e['c'][0]])
        if den[0] is not None and den[0] >= 1 and num[0] is not None and num[0] >= 0:
            return _minus_x_forms(fn, d, fn.nodes[e['c'][0]], v)
        return out
    if k == 'BinaryOperator' and e.get('op') == '-':
        la, lb = linear(fn, fn.nodes[e['c'][0]]), linear(fn, fn.nodes[e['c'][1]])
        if la and lb and lb[0] == v:
            out.add((la[0], la[1] - lb[1]))
    return out
