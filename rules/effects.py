"""Effect analysis: which storage (fields of *this, locals) an expression reads / writes / kills.

Access paths are tuples of field names relative to `this` of the analysed function, e.g. ('m_ritz_val',)
or ('m_fac', 'm_fac_H'); locals are ('%local', varid).  Over-approximates writes and reads (may),
under-approximates kills (must): the sound directions for the rules that use it.
"""
from collections import defaultdict
from .facts import AnalysisBroken, CALL_KINDS, IMPLICIT_ONLY

# Eigen / std member functions that return a view of (part of) their object
VIEW = {
    'head', 'tail', 'segment', 'col', 'row', 'block', 'array', 'matrix', 'topRows', 'bottomRows',
    'leftCols', 'rightCols', 'topLeftCorner', 'topRightCorner', 'bottomLeftCorner', 'bottomRightCorner',
    'middleRows', 'middleCols', 'operator()', 'operator[]', 'data', 'noalias', 'real', 'imag', 'transpose',
    'adjoint', 'diagonal', 'derived', 'const_cast_derived', 'coeffRef', 'coeff', 'begin', 'end', 'front', 'back',
    'at', 'triangularView', 'selfadjointView', 'asDiagonal', 'valuePtr', 'innerIndexPtr', 'outerIndexPtr',
    'operator*', 'operator->', 'get', 'conjugate', 'reverse', 'nestedExpression', 'template head',
}
# members that overwrite the whole object
KILLERS = {'setZero', 'setOnes', 'setConstant', 'setIdentity', 'setRandom', 'fill', 'swap', 'operator=', 'assign',
           'clear', 'setLinSpaced', 'reset'}
# members that modify the object (not necessarily all of it)
MUTATORS = KILLERS | {
    'resize', 'conservativeResize', 'normalize', 'push_back', 'emplace_back', 'reserve', 'pop_back', 'insert',
    'erase', 'compute', 'applyOnTheLeft', 'applyOnTheRight', 'makeCompressed', 'analyzePattern', 'factorize',
    'setTolerance', 'setMaxIterations', 'operator+=', 'operator-=', 'operator*=', 'operator/=', 'resizeLike',
    'setFromTriplets', 'prune', 'operator<<', 'operator++', 'operator--', 'transposeInPlace', 'adjointInPlace',
    'solveInPlace', 'stableNormalize', 'applyHouseholderOnTheLeft', 'applyHouseholderOnTheRight',
    'makeHouseholderInPlace', 'makeHouseholder',
}
ASSIGN_OPS = {'=', '+=', '-=', '*=', '/=', '%=', '<<=', '>>=', '&=', '|=', '^='}


class Access:
    __slots__ = ('path', 'mode', 'node', 'whole', 'via')

    def __init__(self, path, mode, node, whole=False, via=None):
        self.path = path      # tuple
        self.mode = mode      # 'r' | 'w' | 'call' (member call on a Spectra sub-object, see via)
        self.node = node      # node id where the access happens (the context node)
        self.whole = whole    # for 'w': the whole object is overwritten
        self.via = via        # for 'call': the call node


class FnEffects:
    """Per-function access list, in no particular order; positions come from the CFG."""

    def __init__(self, fn, facts):
        self.fn = fn
        self.facts = facts
        self.alias = {}        # local varid -> path it is a view of
        self.accesses = []
        self.calls = []        # (call node, callee Function or None, receiver path or None)
        self.unclassified = []
        self._compute()

    # ------------------------------------------------------------------
    def _base_path(self, n):
        """Path of a storage leaf node (MemberExpr field on this / DeclRefExpr local), or None."""
        fn = self.fn
        k = n['k']
        if k == 'MemberExpr' and n.get('mk') == 'field':
            base = fn.strip(fn.nodes[n['c'][0]]) if n.get('c') else None
            if base is None or base['k'] == 'CXXThisExpr':
                return (n['member'],)
            bp = self._expr_path(base)
            if bp is not None:
                return bp + (n['member'],)
            return None
        if k == 'DeclRefExpr' and 'var' in n:
            v = n['var']
            if v in self.alias:
                return self.alias[v]
            return ('%local', v)
        return None

    def _expr_path(self, n):
        """Path an expression is a view of (through view calls), or None."""
        fn = self.fn
        for _ in range(100):
            n = fn.strip(n)
            if n is None:
                return None
            k = n['k']
            if k == 'MemberExpr' and n.get('mk') == 'field':
                return self._base_path(n)
            if k == 'DeclRefExpr':
                return self._base_path(n)
            if k == 'CXXThisExpr':
                return ()
            if k == 'UnaryOperator' and n.get('op') in ('&', '*'):
                n = fn.nodes[n['c'][0]]
                continue
            if k == 'ArraySubscriptExpr':
                n = fn.nodes[n['c'][0]]
                continue
            if k in ('CXXMemberCallExpr', 'CXXOperatorCallExpr'):
                name = n.get('callee', '')
                if name in VIEW or (n.get('org') == 'S' and n.get('cconst') and self._returns_ref(n)):
                    o = fn.call_object(n)
                    if o is None:
                        return None
                    n = o
                    continue
                return None
            if k in ('CXXConstructExpr', 'CXXTemporaryObjectExpr'):
                # Map / Ref constructed over storage
                t = n.get('ctor_of', '')
                if t in ('Eigen::Map', 'Eigen::Ref') and n.get('c'):
                    n = fn.nodes[n['c'][0]]
                    continue
                return None
            if k in ('CXXStaticCastExpr', 'CXXConstCastExpr', 'CStyleCastExpr', 'CXXFunctionalCastExpr',
                     'CXXReinterpretCastExpr'):
                n = fn.nodes[n['c'][0]]
                continue
            return None
        return None

    def _returns_ref(self, call):
        t = call.get('t', '')
        return call.get('lv', False)

    # ------------------------------------------------------------------
    def _compute(self):
        fn = self.fn
        # pass 1: aliases (reference / Map / Ref locals initialised from a view of storage)
        for n in fn.walk():
            if n['k'] != 'DeclStmt':
                continue
            for d in n.get('decls', []):
                if 'var' not in d or 'init' not in d:
                    continue
                v = fn.locals[d['var']]
                ty = v['type']
                is_view = v.get('ref') or ty.startswith('Eigen::Map<') or ty.startswith('Eigen::Ref<') or \
                    ty.startswith('const Eigen::Map<') or ty.startswith('const Eigen::Ref<') or ty.endswith('*')
                if not is_view:
                    continue
                p = self._expr_path(fn.nodes[d['init']])
                if p is not None and p != ('%local', d['var']):
                    self.alias[d['var']] = p
        # pass 2: classify every storage leaf
        for n in fn.walk():
            k = n['k']
            if k == 'MemberExpr' and n.get('mk') == 'field':
                pass
            elif k == 'DeclRefExpr' and 'var' in n:
                pass
            elif k == 'CXXThisExpr':
                pass
            else:
                continue
            if k == 'CXXThisExpr':
                par = fn.node(fn.parent.get(n['id'], -1))
                # `this->field` handled by the MemberExpr; here only implicit-this member calls
                if par is not None and par['k'] == 'MemberExpr' and par.get('mk') == 'field':
                    continue
                path = ()
            else:
                # skip a field MemberExpr that is the base of another field MemberExpr (handled by the outer)
                path = self._base_path(n)
                if path is None:
                    continue
                par = fn.node(fn.parent.get(n['id'], -1))
                if par is not None and par['k'] == 'MemberExpr' and par.get('mk') == 'field' and \
                        fn.strip(fn.nodes[par['c'][0]])['id'] == n['id']:
                    continue
            self._classify(n, path)

    def _classify(self, leaf, path):
        fn = self.fn
        view = leaf          # current view node
        partial = False      # a sub-view was taken
        for _ in range(200):
            pid = fn.parent.get(view['id'])
            if pid is None:
                self.accesses.append(Access(path, 'r', view['id']))
                return
            p = fn.nodes[pid]
            k = p['k']
            if k in IMPLICIT_ONLY or k in ('CXXStaticCastExpr', 'CStyleCastExpr', 'CXXFunctionalCastExpr',
                                            'CXXConstCastExpr', 'CXXReinterpretCastExpr'):
                if k == 'ImplicitCastExpr' and p.get('ck') == 'LValueToRValue':
                    self.accesses.append(Access(path, 'r', p['id']))
                    return
                view = p
                continue
            if k == 'UnaryOperator':
                op = p.get('op')
                if op in ('&', '*'):
                    view = p
                    continue
                if op in ('++', '--'):
                    self.accesses.append(Access(path, 'r', p['id']))
                    self.accesses.append(Access(path, 'w', p['id'], whole=not partial))
                    return
                self.accesses.append(Access(path, 'r', p['id']))
                return
            if k == 'ArraySubscriptExpr':
                if fn.nodes[p['c'][0]]['id'] == view['id']:
                    view = p
                    partial = True
                    continue
                self.accesses.append(Access(path, 'r', p['id']))
                return
            if k == 'MemberExpr':
                # view is the base of a member reference: method (call decides) or field of a sub-object
                if p.get('mk') == 'field':
                    # handled by the outer field leaf
                    return
                view = p
                continue
            if k in ('BinaryOperator', 'CompoundAssignOperator'):
                op = p.get('op')
                if op in ASSIGN_OPS and fn.nodes[p['c'][0]]['id'] == view['id']:
                    if op != '=':
                        self.accesses.append(Access(path, 'r', p['id']))
                    self.accesses.append(Access(path, 'w', p['id'], whole=(op == '=' and not partial)))
                    return
                self.accesses.append(Access(path, 'r', p['id']))
                return
            if k == 'CXXMemberCallExpr':
                callee_me = fn.strip(fn.nodes[p['c'][0]])
                if callee_me['id'] == view['id'] or fn.within(view, callee_me):
                    # view is the object of the call
                    name = p.get('callee', '')
                    org = p.get('org')
                    if org == 'S':
                        target = self.facts.resolve(p)
                        self.accesses.append(Access(path, 'call', p['id'], via=p['id']))
                        if not p.get('cconst'):
                            # non-const Spectra method on a sub-object: effects come from the callee summary
                            pass
                        if p.get('lv') and p.get('cconst'):
                            # const accessor returning a reference: the result is a view of the object
                            view = p
                            continue
                        return
                    if name in VIEW:
                        if name not in ('noalias', 'array', 'matrix', 'derived', 'const_cast_derived', 'real', 'data',
                                        'begin', 'end', 'get', 'operator->', 'operator*'):
                            partial = True
                        if name == 'real' or name == 'imag':
                            partial = partial or not p.get('t', '').startswith('const')
                        view = p
                        continue
                    if p.get('cconst'):
                        self.accesses.append(Access(path, 'r', p['id']))
                        return
                    if name in MUTATORS or name.startswith('operator'):
                        if name not in KILLERS and name not in ('resize', 'reserve'):
                            # (resize discards the contents: it reads only the object's size)
                            self.accesses.append(Access(path, 'r', p['id']))
                        self.accesses.append(Access(path, 'w', p['id'], whole=(name in KILLERS and not partial)))
                        return
                    self.unclassified.append((name, p['id']))
                    self.accesses.append(Access(path, 'r', p['id']))
                    self.accesses.append(Access(path, 'w', p['id']))
                    return
                # view is an argument
                self._as_argument(path, view, p, partial)
                return
            if k == 'CXXOperatorCallExpr':
                ops = p['c'][1:]
                op = p.get('op', '')
                is_obj = bool(ops) and fn.nodes[ops[0]]['id'] == view['id']
                if is_obj and p.get('org') == 'S' and not p.get('cstatic'):
                    self.accesses.append(Access(path, 'call', p['id'], via=p['id']))
                    if p.get('lv'):
                        view = p
                        continue
                    return
                if is_obj and op in ('[]', '()', '*', '->') and (op != '*' or len(ops) == 1):
                    view = p
                    partial = partial or op in ('[]', '()')
                    continue
                if is_obj and op in ASSIGN_OPS:
                    if op != '=':
                        self.accesses.append(Access(path, 'r', p['id']))
                    self.accesses.append(Access(path, 'w', p['id'], whole=(op == '=' and not partial)))
                    return
                if is_obj and op in ('<<', '++', '--') and not p.get('cconst') and p.get('org') == 'E':
                    self.accesses.append(Access(path, 'r', p['id']))
                    self.accesses.append(Access(path, 'w', p['id']))
                    return
                if is_obj and op == ',':
                    view = p
                    continue
                # operand of a value-producing operator: argument position (index among operands)
                self._as_argument(path, view, p, partial)
                return
            if k in ('CallExpr', 'CXXConstructExpr', 'CXXTemporaryObjectExpr'):
                if k in ('CXXConstructExpr', 'CXXTemporaryObjectExpr') and p.get('ctor_of') in ('Eigen::Map', 'Eigen::Ref') \
                        and p['c'] and fn.nodes[p['c'][0]]['id'] == view['id']:
                    # a mutable / const view object constructed over the storage: classified by its own use
                    if p.get('t', '').startswith('const Eigen::') or 'Map<const' in p.get('t', '') or 'Ref<const' in p.get('t', ''):
                        self.accesses.append(Access(path, 'r', p['id']))
                        return
                    gp = fn.node(fn.parent.get(p['id'], -1))
                    # `MapVec v(&field(0, i), n)` as a declaration initialiser: alias, accesses come from uses of v
                    anc = p
                    while gp is not None and gp['k'] in IMPLICIT_ONLY:
                        anc = gp
                        gp = fn.node(fn.parent.get(gp['id'], -1))
                    if gp is not None and gp['k'] == 'DeclStmt':
                        return
                    view = p
                    partial = True
                    continue
                if k == 'CXXConstructExpr' and (p.get('copy') or p.get('move')) and len(p['c']) == 1:
                    if p.get('move') and not fn.nodes[p['c'][0]].get('t', '').startswith('const'):
                        # moved-from: a write as well
                        self.accesses.append(Access(path, 'r', p['id']))
                        self.accesses.append(Access(path, 'w', p['id']))
                        return
                    self.accesses.append(Access(path, 'r', p['id']))
                    return
                self._as_argument(path, view, p, partial)
                return
            if k == 'DeclStmt':
                # initialiser of a reference / view local: alias (uses are classified on their own)
                for d in p.get('decls', []):
                    if d.get('init') == view['id'] and d['var'] in self.alias:
                        return
                self.accesses.append(Access(path, 'r', p['id']))
                return
            if k == 'ReturnStmt':
                self.accesses.append(Access(path, 'r', p['id']))
                return
            if k == 'ConditionalOperator':
                view = p
                continue
            # any other context: a read
            self.accesses.append(Access(path, 'r', p['id']))
            return

    def _as_argument(self, path, view, call, partial):
        fn = self.fn
        args = fn.call_args(call)
        idx = None
        for i, a in enumerate(args):
            if a['id'] == view['id']:
                idx = i
                break
        pm = call.get('pmut')
        mode = None
        if idx is not None and pm is not None:
            j = idx
            if call['k'] == 'CXXOperatorCallExpr' and not call.get('cstatic') and call.get('cls', '') and \
                    len(pm) == len(args) - 1:
                j = idx - 1     # member operator: first operand is the object
            if 0 <= j < len(pm):
                mode = pm[j]
        if call.get('unresolved'):
            mode = 'R'
        if mode in ('R', 'P', 'V'):
            # a mutable reference / pointer / view parameter: may read and may write
            self.accesses.append(Access(path, 'r', call['id']))
            self.accesses.append(Access(path, 'w', call['id'], whole=False))
        else:
            self.accesses.append(Access(path, 'r', call['id']))


class Effects:
    """Interprocedural may-write / may-read summaries over the analysed Spectra functions."""

    def __init__(self, facts):
        self.facts = facts
        self._fe = {}
        self._mw = {}
        self._mr = {}

    def of(self, fn):
        e = self._fe.get(id(fn))
        if e is None:
            e = FnEffects(fn, self.facts)
            self._fe[id(fn)] = e
        return e

    def _callee_targets(self, call):
        """Analysed functions a call may dispatch to (virtual: the static target and its overriders)."""
        t = self.facts.resolve(call)
        if t is None:
            return []
        out = [t]
        if call.get('cvirtual'):
            out += self.facts.overriders(t)
        return out

    def _summary(self, fn, mode, stack):
        cache = self._mw if mode == 'w' else self._mr
        key = fn.mangled or id(fn)
        if key in cache:
            return cache[key]
        if key in stack:
            return set()
        stack = stack | {key}
        fe = self.of(fn)
        out = set()
        for a in fe.accesses:
            if a.path and a.path[0] == '%local':
                continue
            if a.mode == mode:
                out.add(a.path)
            elif a.mode == 'call':
                call = fn.nodes[a.via]
                for t in self._callee_targets(call):
                    for p in self._summary(t, mode, stack):
                        out.add(a.path + p)
                if mode == 'r':
                    out.add(a.path) if a.path else None
        cache[key] = out
        return out

    def may_write(self, fn):
        return self._summary(fn, 'w', frozenset())

    def may_read(self, fn):
        return self._summary(fn, 'r', frozenset())

    def call_may_write(self, fn, call):
        """Paths (relative to fn's this) that executing `call` inside fn may write."""
        fe = self.of(fn)
        out = set()
        for a in fe.accesses:
            if a.node != call['id']:
                continue
            if a.path and a.path[0] == '%local':
                continue
            if a.mode == 'w':
                out.add(a.path)
            elif a.mode == 'call':
                for t in self._callee_targets(call):
                    for p in self.may_write(t):
                        out.add(a.path + p)
        return out

    def call_may_read(self, fn, call):
        fe = self.of(fn)
        out = set()
        for a in fe.accesses:
            if a.node != call['id']:
                continue
            if a.path and a.path[0] == '%local':
                continue
            if a.mode == 'r':
                out.add(a.path)
            elif a.mode == 'call':
                for t in self._callee_targets(call):
                    for p in self.may_read(t):
                        out.add(a.path + p)
        return out
