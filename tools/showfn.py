#!/usr/bin/env python3
"""Debug helper: print the CFG of functions matching a template-qualified name.  usage: showfn.py facts.json[,..] Spectra::HermEigsBase::compute [--tree]"""
import sys, os
sys.path.insert(0, os.path.join(os.path.dirname(__file__), '..'))
from rules.facts import Facts
files = sys.argv[1].split(',')
F = Facts(files)
tq = sys.argv[2]
tree = '--tree' in sys.argv
first = '--all' not in sys.argv
for fn in (F.by_tq.get(tq, []) + (F.patterns.get(tq, []) if '--pat' in sys.argv else [])):
    print('====', fn.qname, fn.loc(), 'dep' if fn.dep else '')
    if tree or fn.dep:
        def rec(i, ind):
            n = fn.nodes[i]
            extra = {k: v for k, v in n.items() if k not in ('id', 'k', 'c', 'l', 'col', 't', 'cq', 'mangled', 'cargs')}
            print('  ' * ind + '%d %s %s' % (i, n['k'], extra))
            for c in fn._all_children(n):
                if c >= 0: rec(c, ind + 1)
        for i in fn.inits: rec(i['expr'], 1)
        if fn.body >= 0: rec(fn.body, 0)
    if fn.cfg:
        print('entry', fn.cfg['entry'], 'exit', fn.cfg['exit'])
        for b in fn.cfg['blocks']:
            print(' B%d -> %s  term=%s label=%s' % (b['id'], b['succs'], b.get('termk'), b.get('label')))
            for e in b['elems']:
                if isinstance(e, int):
                    n = fn.nodes[e]
                    if n['k'] in ('ImplicitCastExpr', 'DeclRefExpr', 'MemberExpr', 'CXXThisExpr', 'IntegerLiteral', 'MaterializeTemporaryExpr'): continue
                    print('     [%d] %-22s L%d  %s' % (e, n['k'], n['l'], fn.s(n)[:150]))
                else:
                    print('     ', e)
    if first: break
