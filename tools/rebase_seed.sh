#!/bin/bash
# usage: tools/rebase_seed.sh <seed dir>: re-generates patch.diff against /repo HEAD when it only applies with fuzz
# (context drifted after a fix: commit), in a scratch worktree that is removed again.  Never touches /repo's tree.
set -u
SRC=$(readlink -f $1); NAME=$(basename $SRC | cut -d- -f1)
WT=/tmp/rb-$NAME
git -C /repo worktree remove --force $WT >/dev/null 2>&1
git -C /repo worktree add -q --detach $WT HEAD || exit 3
cd $WT
if git apply --check $SRC/patch.diff 2>/dev/null; then echo "REBASE $NAME: applies cleanly, nothing to do"; cd /; git -C /repo worktree remove --force $WT; exit 0; fi
if patch -p1 --fuzz=3 --no-backup-if-mismatch -s < $SRC/patch.diff > $WT/.patch.log 2>&1; then
    find . -name '*.orig' -delete; find . -name '*.rej' -delete
    git diff > $SRC/patch.diff
    echo "REBASE $NAME: regenerated ($(grep -c '^@@' $SRC/patch.diff) hunks)"
    RC=0
else
    echo "REBASE $NAME: does not apply even with fuzz"; cat $WT/.patch.log; RC=1
fi
cd /; git -C /repo worktree remove --force $WT; exit $RC
