"""Interactive helper: from tools.fb import F, C  (fact base of the current quick cache)."""
import sys, glob, os
sys.path.insert(0, os.path.dirname(os.path.dirname(os.path.abspath(__file__))))
from rules.facts import Facts
from rules import build
files, ctrl, info = build.build(os.environ.get('VERIF_TIER', 'quick'), verbose=False)
F = Facts(files)
C = Facts(ctrl)
from rules.effects import Effects
from rules import core as _core
CTX = _core.Ctx('probe', 'quick', F, C, Effects(F), info)
