#!/usr/bin/env python3
"""Generates MANIFEST.json from the per-property table below (kept in one place so it stays valid)."""
import json, os
V = os.path.dirname(os.path.dirname(os.path.abspath(__file__)))
CLAIMED = json.load(open(os.path.join(V, 'tools', 'claims.json')))
props = [json.loads(l) for l in open(os.path.join(V, 'properties.jsonl'))]
checks = []
na = []
for p in props:
    pid = p['id']
    c = CLAIMED.get(pid)
    if c and c.get('claimed'):
        checks.append({
            'property_id': pid,
            'quick_cmd': './check %s --tier quick' % pid,
            'thorough_cmd': './check %s --tier thorough' % pid,
            'evidence_file': 'evidence/%s.json' % pid,
            'replay_cmd_template': './check %s --replay {path}' % pid,
            'engine': 'spectra-facts+rules',
            'level_claimed': {'category': 'other', 'text': c['text'], 'design_ref': c.get('design_ref', 'DESIGN.md section 4, ' + pid)},
            'level_note': c['note'],
            'technique': c['technique'],
        })
    else:
        na.append({'property_id': pid, 'reason': (c or {}).get('reason', 'check not built yet (see DESIGN.md section 4 for the plan); not claimed')})
m = {
    'version': 1,
    'setup_cmd': './setup.sh',
    'hooks': {'guard': 'SPECTRA_VERIF', 'enable': 'none needed: every check reads the unmodified sources of /repo (no hooks were added)',
              'baseline_off_cmd': 'cd /repo && cmake -G Ninja -B _build -S . -DBUILD_TESTS=ON -DCMAKE_BUILD_TYPE=RelWithDebInfo >/dev/null && cmake --build _build -j16 >/dev/null && ctest --test-dir _build -j8 --timeout 900',
              'source_commits': [], 'add_only': True},
    'engines': [
        {'name': 'spectra-facts', 'path': 'tool/spectra_facts.cc', 'serves_properties': [c['property_id'] for c in checks],
         'kind_free_text': 'libTooling extractor: type-checked AST + clang::CFG of every instantiated Spectra function (drivers/*.cpp instantiate the templates)'},
        {'name': 'rules', 'path': 'rules/', 'serves_properties': [c['property_id'] for c in checks],
         'kind_free_text': 'Python rules over the fact base: must-pass-through / dominance on CFGs, interprocedural may-write/read effects, definite assignment, who-may-call, template-parameter flow, expression normal forms'},
    ],
    'checks': checks,
    'not_applicable': na,
    'notes': 'Static analysis only. exit 0 = all rule instances hold (KNOWN-FINDING lines allowed), 1 = VIOLATION, 2 = analysis broken (anchor vanished / vacuous rule / unknown idiom). Known findings: known_findings.txt.',
}
json.dump(m, open(os.path.join(V, 'MANIFEST.json'), 'w'), indent=1)
print('claimed', len(checks), 'not applicable', len(na))
