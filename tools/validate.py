#!/opt/veriftools/pyvenv/bin/python
"""Validates MANIFEST.json and every evidence file against the schemas in /root/.vp."""
import json, sys, os, glob, jsonschema
V = os.path.dirname(os.path.dirname(os.path.abspath(__file__)))
jsonschema.validate(json.load(open(V + '/MANIFEST.json')), json.load(open('/root/.vp/MANIFEST.schema.json')))
es = json.load(open('/root/.vp/EVIDENCE.schema.json'))
m = json.load(open(V + '/MANIFEST.json'))
for c in m['checks']:
    f = os.path.join(V, c['evidence_file'])
    if not os.path.exists(f):
        print('MISSING', f); continue
    jsonschema.validate(json.load(open(f)), es)
ids = set(c['property_id'] for c in m['checks']) | set(n['property_id'] for n in m.get('not_applicable', []))
props = [json.loads(l)['id'] for l in open(V + '/properties.jsonl')]
assert set(props) == ids, (set(props) ^ ids)
print('manifest + %d evidence files valid' % len(m['checks']))
