#!/bin/sh
# Runs every registered quick check against /repo, then validates MANIFEST and evidence. Exit 1 if any check is not 0.
cd "$(dirname "$0")/.."
rc=0
for p in $(python3 -c "import json;print(' '.join(c['property_id'] for c in json.load(open('MANIFEST.json'))['checks']))"); do
    ./check $p --tier ${1:-quick} > /tmp/runall_$p.out 2>&1; r=$?
    echo "$p exit=$r $(grep -E 'obligations discharged' /tmp/runall_$p.out)"
    [ $r -ne 0 ] && rc=1
done
python3-vt tools/validate.py || rc=1
exit $rc
