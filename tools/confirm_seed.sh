#!/bin/bash
# usage: tools/confirm_seed.sh <seed dir with patch.diff + demo.cpp> <name> [extra g++ flags]
# Confirms independently, in a scratch worktree outside /repo and /verif: demo passes on HEAD, fails with the patch,
# and the unedited test suite passes with the patch.  Prints a summary line; removes the worktree.
set -u
SRC=$1; NAME=$2; shift 2; EXTRA="$*"
WT=/tmp/cf-$NAME
git -C /repo worktree remove --force $WT >/dev/null 2>&1
git -C /repo worktree add -q --detach $WT HEAD || exit 3
cd $WT
g++ -std=c++11 -O1 $EXTRA -I$WT/include -I/usr/include/eigen3 $SRC/demo.cpp -o $WT/demo_clean 2>$WT/demo_clean.err
timeout 900 $WT/demo_clean > $WT/demo_clean.out 2>&1; RC_CLEAN=$?
git apply $SRC/patch.diff || { echo "CONFIRM $NAME: patch does not apply"; git -C /repo worktree remove --force $WT; exit 3; }
g++ -std=c++11 -O1 $EXTRA -I$WT/include -I/usr/include/eigen3 $SRC/demo.cpp -o $WT/demo_patched 2>$WT/demo_patched.err
timeout 900 $WT/demo_patched > $WT/demo_patched.out 2>&1; RC_PATCH=$?
cmake -G Ninja -B $WT/_b -S $WT -DBUILD_TESTS=ON -DCMAKE_BUILD_TYPE=RelWithDebInfo >/dev/null 2>&1
cmake --build $WT/_b -j8 > $WT/build.log 2>&1; RC_BUILD=$?
ctest --test-dir $WT/_b -j8 --timeout 900 > $WT/ctest.log 2>&1; RC_TEST=$?
SUMMARY=$(grep -E "tests passed|tests failed" $WT/ctest.log | tail -1)
echo "CONFIRM $NAME: demo_clean_rc=$RC_CLEAN demo_patched_rc=$RC_PATCH build_rc=$RC_BUILD ctest_rc=$RC_TEST [$SUMMARY]"
echo "--- clean demo tail:"; tail -3 $WT/demo_clean.out
echo "--- patched demo tail:"; tail -5 $WT/demo_patched.out
cd /; git -C /repo worktree remove --force $WT
