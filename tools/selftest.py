#!/usr/bin/env python3
"""Self-test of the checkers: every patch under selftest/mutants/ (and seeded/*/patch.diff) is applied to a
scratch copy of /repo/include outside /repo and /verif, the named property checks are run against that copy
(SPECTRA_REPO), and the run must end with exit 1 and a report naming the expected rule.  The unchanged tree
must stay silent.  Not a registered check: it tests the machinery, not the library.

usage: tools/selftest.py [-j N] [name-substring ...]

Patch header lines (before the diff):
   # property: C05[,C01]        checks to run
   # expect: <rule-name>[,..]   at least one VIOLATION must come from one of these rules (per property: C05=rule)
   # note: free text
"""
import os
import re
import shutil
import subprocess
import sys
import tempfile
from concurrent.futures import ThreadPoolExecutor

V = os.path.dirname(os.path.dirname(os.path.abspath(__file__)))
REPO = '/repo'


def parse(path):
    props, expect, note = [], [], ''
    for line in open(path, errors='replace'):
        if line.startswith('diff ') or line.startswith('--- '):
            break
        m = re.match(r'#\s*property:\s*(.*)', line)
        if m:
            props = [x.strip() for x in m.group(1).split(',') if x.strip()]
        m = re.match(r'#\s*expect:\s*(.*)', line)
        if m:
            expect = [x.strip() for x in m.group(1).split(',') if x.strip()]
        m = re.match(r'#\s*note:\s*(.*)', line)
        if m:
            note = m.group(1)
    return props, expect, note


def run_one(item):
    name, path, props, expect = item
    tmp = tempfile.mkdtemp(prefix='verif-selftest-')
    try:
        shutil.copytree(os.path.join(REPO, 'include'), os.path.join(tmp, 'include'))
        if isinstance(path, list):
            # in-place edits: (file relative to include/Spectra, old text, new text); old must occur exactly once
            for ed in path:
                rel, old, new = ed[:3]
                every = len(ed) > 3 and ed[3] == 'all'     # replace every occurrence (at least one)
                fp = os.path.join(tmp, 'include', 'Spectra', rel)
                with open(fp, newline='') as fh:
                    src = fh.read()
                if (src.count(old) < 1) if every else (src.count(old) != 1):
                    return name, False, 'stale mutant: %r occurs %d times in %s' % (old[:50], src.count(old), rel)
                with open(fp, 'w', newline='') as fh:
                    fh.write(src.replace(old, new))
        else:
            p = subprocess.run(['patch', '-p1', '-s', '--binary', '-d', tmp, '-i', path], stdout=subprocess.PIPE, stderr=subprocess.STDOUT, text=True)
            if p.returncode != 0:
                return name, False, 'patch does not apply: ' + p.stdout[-300:]
        if os.environ.get('SELFTEST_COMPILE'):
            # optional: the mutant must still compile (all drivers, syntax only)
            import glob
            for drv in sorted(glob.glob(os.path.join(V, 'drivers', '*.cpp'))):
                c = subprocess.run(['clang++', '-std=c++11', '-fsyntax-only', '-I' + os.path.join(tmp, 'include'), '-I' + os.path.join(V, 'drivers'),
                                    '-isystem', '/usr/include/eigen3', '-Wno-everything', drv], stdout=subprocess.PIPE, stderr=subprocess.STDOUT, text=True)
                if c.returncode != 0:
                    return name, False, 'mutant does not compile (%s): %s' % (os.path.basename(drv), c.stdout[-400:])
        results = []
        ok_all = True
        for pid in props:
            env = dict(os.environ, SPECTRA_REPO=tmp, VERIF_ALT_OUT=os.path.join(tmp, 'out'), VERIF_CACHE_DIR=os.path.join(tmp, 'cache'))
            r = subprocess.run([os.path.join(V, 'check'), pid, '--tier', 'quick'], cwd=V, env=env,
                               stdout=subprocess.PIPE, stderr=subprocess.STDOUT, text=True)
            rules = re.findall(r'rule (\S+), instance', r.stdout)
            want = [e.split('=', 1)[1] if '=' in e else e for e in expect if '=' not in e or e.startswith(pid + '=')]
            if expect == ['<silent>']:
                hit = r.returncode == 0 and 'VIOLATION' not in r.stdout
            elif expect == ['<analysis-broken>']:
                hit = r.returncode == 2 and 'VIOLATION' not in r.stdout
            else:
                hit = r.returncode == 1 and 'VIOLATION property=%s' % pid in r.stdout and (not want or any(x in rules for x in want))
            ok_all = ok_all and hit
            results.append('%s exit=%d rules=%s%s' % (pid, r.returncode, sorted(set(rules)), '' if hit else '  <-- expected %s\n%s' % (want, r.stdout[-1500:])))
        return name, ok_all, '; '.join(results)
    finally:
        shutil.rmtree(tmp, ignore_errors=True)
        shutil.rmtree(os.path.join(V, '.cache', 'alt'), ignore_errors=True) if False else None


def main():
    args = sys.argv[1:]
    jobs = 3
    if args and args[0] == '-j':
        jobs = int(args[1])
        args = args[2:]
    items = []
    md = os.path.join(V, 'selftest', 'mutants')
    for f in sorted(os.listdir(md)) if os.path.isdir(md) else []:
        if f.endswith('.diff'):
            items.append((f[:-5], os.path.join(md, f)))
    sd = os.path.join(V, 'seeded')
    for d in sorted(os.listdir(sd)) if os.path.isdir(sd) else []:
        p = os.path.join(sd, d, 'patch.diff')
        if os.path.exists(p):
            items.append(('seeded/' + d, p))
    todo = []
    sys.path.insert(0, os.path.join(V, 'selftest'))
    try:
        import mutants as M
        for m in M.MUTANTS:
            if args and not any(a in m['name'] for a in args):
                continue
            todo.append((m['name'], [tuple(e) for e in m['edits']], m['props'], m.get('expect', [])))
        for m in getattr(M, 'NEUTRAL', []):
            if args and not any(a in m['name'] for a in args):
                continue
            todo.append(('neutral/' + m['name'], [tuple(e) for e in m['edits']], m['props'], ['<silent>']))
    except ImportError:
        pass
    for name, path in items:
        if args and not any(a in name for a in args):
            continue
        props, expect, note = parse(path)
        if name.startswith('seeded/') and not props:
            mj = os.path.join(os.path.dirname(path), 'meta.json')
            if os.path.exists(mj):
                import json
                m = json.load(open(mj))
                props = m.get('detected_by_checks', []) or [m.get('property')]
                expect = m.get('expect_rules', [])
        if not props:
            print('SKIP %s: no "# property:" header' % name)
            continue
        todo.append((name, path, props, expect))
    bad = 0
    with ThreadPoolExecutor(max_workers=jobs) as ex:
        for name, ok, msg in ex.map(run_one, todo):
            print('%s %-44s %s' % ('ok  ' if ok else 'FAIL', name, msg))
            bad += 0 if ok else 1
    print('%d mutant(s), %d not detected as expected' % (len(todo), bad))
    return 1 if bad else 0


if __name__ == '__main__':
    sys.exit(main())
