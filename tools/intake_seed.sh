#!/bin/bash
# usage: tools/intake_seed.sh <property> <seed-name> [<other checks,comma separated>]
# Copies /tmp/seedm/<property>/seed_out into seeded/<seed-name>/, confirms it independently (tools/confirm_seed.sh) and
# runs the named checks against a scratch copy carrying the patch (tools/selftest.py).  meta.json is a skeleton to complete.
set -u
P=$1; NAME=$2; OTHERS=${3:-}
SRC=/tmp/seedm/$P/seed_out
DST=/verif/seeded/$NAME
mkdir -p $DST
cp $SRC/patch.diff $SRC/demo.cpp $DST/ || exit 3
[ -f $SRC/notes.md ] && cp $SRC/notes.md $DST/
[ -f $SRC/observations.md ] && cp $SRC/observations.md $DST/
CHECKS=$(python3 -c "import sys; print(','.join('\"%s\"'%x for x in ([sys.argv[1]]+[y for y in sys.argv[2].split(',') if y])))" $P "$OTHERS")
[ -f $DST/meta.json ] || cat > $DST/meta.json <<J
{
 "property": "$P",
 "source": "independent sub-agent, round 12 (given only the property text and a scratch worktree)",
 "what": "",
 "needs": "",
 "detected_by_checks": [$CHECKS],
 "expect_rules": [],
 "status": ""
}
J
( /verif/tools/confirm_seed.sh $DST $NAME > $DST/.confirm.log 2>&1; grep CONFIRM $DST/.confirm.log ) &
python3 /verif/tools/selftest.py seeded/$NAME 2>&1 > $DST/.selftest.log; grep -oE "(ok  |FAIL) seeded[^ ]*|C[0-9]+ exit=[0-9] rules=\[[^]]*\]|ANALYSIS-BROKEN.*" $DST/.selftest.log
wait
