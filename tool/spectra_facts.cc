// spectra-facts: libTooling fact extractor for the static checks in /verif.
//
// For one translation unit it writes a JSON document with
//   * records   : every class (template pattern or instantiation) defined under one of the roots
//   * enums     : enumerations defined under the roots
//   * vars      : variables with static / thread storage duration defined under the roots
//   * functions : every function *definition* under the roots -- template patterns (dep=true, AST
//                 only) and instantiated / non-template functions (dep=false, AST + clang::CFG with
//                 every sub-expression as its own CFG element, in evaluation order)
// Nothing is decided here; the rules in /verif/rules/*.py decide.  The tool never looks at text:
// callees are the resolved declarations (getDirectCallee / constructor / member decl).
//
// usage: spectra-facts --root=/repo/include/Spectra [--root=...] -o out.json file.cpp -- <flags>

#include "clang/AST/ASTConsumer.h"
#include "clang/AST/ASTContext.h"
#include "clang/AST/DeclTemplate.h"
#include "clang/AST/ExprCXX.h"
#include "clang/AST/Mangle.h"
#include "clang/AST/RecursiveASTVisitor.h"
#include "clang/AST/StmtCXX.h"
#include "clang/Analysis/CFG.h"
#include "clang/Frontend/CompilerInstance.h"
#include "clang/Frontend/FrontendAction.h"
#include "clang/Tooling/CommonOptionsParser.h"
#include "clang/Tooling/Tooling.h"
#include "llvm/Support/CommandLine.h"
#include "llvm/Support/raw_ostream.h"

#include <map>
#include <set>
#include <string>
#include <vector>

using namespace clang;

static llvm::cl::OptionCategory Cat("spectra-facts options");
static llvm::cl::list<std::string> Roots("root", llvm::cl::desc("source root to analyse"), llvm::cl::cat(Cat));
static llvm::cl::opt<std::string> OutFile("o", llvm::cl::desc("output file"), llvm::cl::init("-"), llvm::cl::cat(Cat));

namespace {

std::string jstr(llvm::StringRef s)
{
    std::string o = "\"";
    for (unsigned char c : s)
    {
        switch (c)
        {
            case '"': o += "\\\""; break;
            case '\\': o += "\\\\"; break;
            case '\n': o += "\\n"; break;
            case '\r': o += "\\r"; break;
            case '\t': o += "\\t"; break;
            default:
                if (c < 0x20)
                {
                    char buf[8];
                    snprintf(buf, sizeof buf, "\\u%04x", c);
                    o += buf;
                }
                else
                    o += (char) c;
        }
    }
    o += "\"";
    return o;
}

std::string cap(const std::string& s, size_t n)
{
    if (s.size() <= n)
        return s;
    return s.substr(0, n) + "...";
}

class Extractor : public RecursiveASTVisitor<Extractor>
{
public:
    ASTContext& Ctx;
    SourceManager& SM;
    PrintingPolicy PP;
    std::unique_ptr<MangleContext> MC;
    std::vector<std::string> recs, enums, vars, funcs;
    std::set<const Decl*> seenF, seenR, seenV, seenE;

    explicit Extractor(ASTContext& C) :
        Ctx(C), SM(C.getSourceManager()), PP(C.getLangOpts()), MC(C.createMangleContext())
    {
        PP.SuppressTagKeyword = true;
        PP.Bool = true;
        PP.SuppressUnwrittenScope = true;
        PP.PrintCanonicalTypes = true;   // same spelling of a class in every TU (not the as-written template arguments)
    }

    bool shouldVisitTemplateInstantiations() const { return true; }
    bool shouldVisitImplicitCode() const { return false; }

    // ---------------------------------------------------------------- locations
    std::string fileOf(SourceLocation L)
    {
        if (L.isInvalid())
            return "";
        L = SM.getFileLoc(L);
        return SM.getFilename(L).str();
    }
    unsigned lineOf(SourceLocation L)
    {
        if (L.isInvalid())
            return 0;
        return SM.getSpellingLineNumber(SM.getFileLoc(L));
    }
    unsigned colOf(SourceLocation L)
    {
        if (L.isInvalid())
            return 0;
        return SM.getSpellingColumnNumber(SM.getFileLoc(L));
    }
    bool inRoots(SourceLocation L)
    {
        std::string f = fileOf(L);
        if (f.empty())
            return false;
        for (auto& r : Roots)
            if (f.compare(0, r.size(), r) == 0)
                return true;
        return false;
    }
    // 'S' = under a root, 'E' = Eigen, 's' = std / system, '?' = unknown
    char originOf(const Decl* D)
    {
        if (!D)
            return '?';
        std::string f = fileOf(D->getLocation());
        if (f.empty())
            return '?';
        for (auto& r : Roots)
            if (f.compare(0, r.size(), r) == 0)
                return 'S';
        if (f.find("/eigen3/") != std::string::npos || f.find("/Eigen/") != std::string::npos)
            return 'E';
        return 's';
    }

    // ---------------------------------------------------------------- names / types
    std::string typeStr(QualType T)
    {
        if (T.isNull())
            return "";
        return T.getCanonicalType().getAsString(PP);
    }
    std::string qname(const NamedDecl* D)
    {
        std::string s;
        llvm::raw_string_ostream os(s);
        D->printQualifiedName(os, PP);
        return os.str();
    }
    // full name of a record: with template arguments for instantiations
    std::string recName(const CXXRecordDecl* RD)
    {
        if (isa<ClassTemplateSpecializationDecl>(RD) && !RD->isDependentContext() && RD->getTypeForDecl())
            return typeStr(QualType(RD->getTypeForDecl(), 0));
        return qname(RD);
    }
    // location of the source text a record was made from (explicit instantiations are located at the
    // `template class X<..>;` line, which may be outside the roots)
    SourceLocation recLoc(const CXXRecordDecl* RD)
    {
        if (auto* CS = dyn_cast<ClassTemplateSpecializationDecl>(RD))
            if (!CS->isExplicitSpecialization() && !isa<ClassTemplatePartialSpecializationDecl>(RD))
            {
                auto P = CS->getInstantiatedFrom();
                if (auto* PS = P.dyn_cast<ClassTemplatePartialSpecializationDecl*>())
                    return PS->getLocation();
                if (auto* CT = P.dyn_cast<ClassTemplateDecl*>())
                    return CT->getTemplatedDecl()->getLocation();
                return CS->getSpecializedTemplate()->getTemplatedDecl()->getLocation();
            }
        return RD->getLocation();
    }
    // qualified name of the template / class without template arguments
    std::string tmplName(const DeclContext* DC)
    {
        std::vector<std::string> parts;
        while (DC && !DC->isTranslationUnit())
        {
            if (auto* ND = dyn_cast<NamespaceDecl>(DC))
            {
                if (!ND->isAnonymousNamespace() && !ND->isInline())
                    parts.push_back(ND->getNameAsString());
            }
            else if (auto* RD = dyn_cast<RecordDecl>(DC))
                parts.push_back(RD->getNameAsString());
            else if (auto* FD = dyn_cast<FunctionDecl>(DC))
                parts.push_back(FD->getNameAsString());
            DC = DC->getParent();
        }
        std::string s;
        for (auto it = parts.rbegin(); it != parts.rend(); ++it)
        {
            if (!s.empty())
                s += "::";
            s += *it;
        }
        return s;
    }
    // simple name; constructors / destructors are named after their class without template arguments
    std::string simpleName(const NamedDecl* D)
    {
        if (auto* CD = dyn_cast<CXXConstructorDecl>(D))
            return CD->getParent()->getNameAsString();
        if (auto* DD = dyn_cast<CXXDestructorDecl>(D))
            return "~" + DD->getParent()->getNameAsString();
        return D->getNameAsString();
    }
    std::string targStr(const TemplateArgument& A)
    {
        switch (A.getKind())
        {
            case TemplateArgument::Type: return typeStr(A.getAsType());
            case TemplateArgument::Integral: return llvm::toString(A.getAsIntegral(), 10);
            case TemplateArgument::Pack:
            {
                std::string s = "<pack:";
                for (auto& P : A.pack_elements())
                    s += targStr(P) + ";";
                return s + ">";
            }
            default:
            {
                std::string s;
                llvm::raw_string_ostream os(s);
                A.print(PP, os, true);
                return os.str();
            }
        }
    }
    std::string targList(const TemplateArgumentList* L)
    {
        std::string s = "[";
        if (L)
            for (unsigned i = 0; i < L->size(); i++)
            {
                if (i)
                    s += ",";
                s += jstr(targStr(L->get(i)));
            }
        return s + "]";
    }
    std::string classTargs(const DeclContext* DC)
    {
        if (auto* S = dyn_cast_or_null<ClassTemplateSpecializationDecl>(DC))
            return targList(&S->getTemplateArgs());
        return "[]";
    }
    std::string mangled(const FunctionDecl* FD)
    {
        if (!FD || FD->isDependentContext() || FD->isTemplated())
            return "";
        if (FD->getType()->isDependentType())
            return "";
        std::string s;
        llvm::raw_string_ostream os(s);
        if (auto* CD = dyn_cast<CXXConstructorDecl>(FD))
            MC->mangleName(GlobalDecl(CD, Ctor_Complete), os);
        else if (auto* DD = dyn_cast<CXXDestructorDecl>(FD))
            MC->mangleName(GlobalDecl(DD, Dtor_Complete), os);
        else if (MC->shouldMangleDeclName(FD))
            MC->mangleName(GlobalDecl(FD), os);
        else
            os << FD->getNameAsString();
        return os.str();
    }

    // ---------------------------------------------------------------- function bodies
    struct FnCtx
    {
        std::map<const Stmt*, int> id;
        std::map<const ValueDecl*, int> vid;
        std::vector<std::string> nodes;
        std::vector<std::string> locals;
    };

    int varId(FnCtx& F, const ValueDecl* D)
    {
        auto it = F.vid.find(D);
        if (it != F.vid.end())
            return it->second;
        int n = (int) F.vid.size();
        F.vid[D] = n;
        std::string k = isa<ParmVarDecl>(D) ? "param" : (isa<VarDecl>(D) ? "var" : (isa<BindingDecl>(D) ? "binding" : "other"));
        std::string s = "{\"id\":" + std::to_string(n) + ",\"name\":" + jstr(D->getNameAsString()) +
            ",\"kind\":" + jstr(k) + ",\"type\":" + jstr(typeStr(D->getType())) +
            ",\"line\":" + std::to_string(lineOf(D->getLocation()));
        if (auto* VD = dyn_cast<VarDecl>(D))
        {
            if (VD->isStaticLocal())
                s += ",\"static_local\":true";
            if (VD->getType()->isReferenceType())
                s += ",\"ref\":true";
            if (VD->getType().getNonReferenceType().isConstQualified())
                s += ",\"const\":true";
        }
        s += "}";
        F.locals.push_back(s);
        return n;
    }

    std::string calleeAttrs(const FunctionDecl* FD)
    {
        std::string s;
        if (!FD)
            return s;
        char org = originOf(FD);
        s += ",\"callee\":" + jstr(simpleName(FD));
        s += ",\"cls\":" + jstr(tmplName(FD->getDeclContext()));
        s += std::string(",\"org\":\"") + org + "\"";
        std::string q = qname(FD);
        s += ",\"cq\":" + jstr(org == 'S' ? q : cap(q, 300));
        if (org == 'S')
        {
            std::string m = mangled(FD);
            if (!m.empty())
                s += ",\"mangled\":" + jstr(m);
        }
        if (auto* TA = FD->getTemplateSpecializationArgs())
            s += ",\"targs\":" + targList(TA);
        if (auto* RD = dyn_cast<CXXRecordDecl>(FD->getDeclContext()))
            if (isa<ClassTemplateSpecializationDecl>(RD))
            {
                std::string ca = classTargs(RD);
                if (org == 'S' || ca.size() < 400)
                    s += ",\"cargs\":" + ca;
            }
        {
            // mutability of each parameter: R = non-const lvalue reference, P = pointer to non-const,
            // V = by-value mutable view (Eigen::Ref / Eigen::Map of a non-const object), C = anything else
            std::string pm;
            for (unsigned i = 0; i < FD->getNumParams(); i++)
            {
                QualType T = FD->getParamDecl(i)->getType().getCanonicalType();
                char c = 'C';
                if (T->isLValueReferenceType() && !T.getNonReferenceType().isConstQualified())
                    c = 'R';
                else if (T->isPointerType() && !T->getPointeeType().isConstQualified())
                    c = 'P';
                else if (!T->isReferenceType())
                {
                    std::string ts = typeStr(T);
                    if ((ts.compare(0, 11, "Eigen::Ref<") == 0 && ts.compare(0, 17, "Eigen::Ref<const ") != 0) ||
                        (ts.compare(0, 11, "Eigen::Map<") == 0 && ts.compare(0, 17, "Eigen::Map<const ") != 0))
                        c = 'V';
                }
                if (c == 'R' || c == 'C')
                {
                    // a reference to a mutable view also counts as a view
                    std::string ts = typeStr(T.getNonReferenceType().getUnqualifiedType());
                    if (c == 'C' && T->isReferenceType() &&
                        ((ts.compare(0, 11, "Eigen::Ref<") == 0 && ts.compare(0, 17, "Eigen::Ref<const ") != 0) ||
                         (ts.compare(0, 11, "Eigen::Map<") == 0 && ts.compare(0, 17, "Eigen::Map<const ") != 0)))
                        c = 'V';
                }
                pm += c;
            }
            s += ",\"pmut\":" + jstr(pm);
        }
        if (auto* MD = dyn_cast<CXXMethodDecl>(FD))
        {
            if (MD->isConst())
                s += ",\"cconst\":true";
            if (MD->isVirtual())
                s += ",\"cvirtual\":true";
            if (MD->isStatic())
                s += ",\"cstatic\":true";
        }
        return s;
    }

    int dump(FnCtx& F, const Stmt* S)
    {
        if (!S)
            return -1;
        auto it = F.id.find(S);
        if (it != F.id.end())
            return it->second;
        int me = (int) F.nodes.size();
        F.id[S] = me;
        F.nodes.emplace_back();

        std::string a = "{\"id\":" + std::to_string(me) + ",\"k\":" + jstr(S->getStmtClassName());
        a += ",\"l\":" + std::to_string(lineOf(S->getBeginLoc()));
        a += ",\"col\":" + std::to_string(colOf(S->getBeginLoc()));
        if (auto* E = dyn_cast<Expr>(S))
        {
            a += ",\"t\":" + jstr(cap(typeStr(E->getType()), 200));
            if (E->isLValue())
                a += ",\"lv\":true";
        }

        std::vector<const Stmt*> kids;
        bool kidsDone = false;

        if (auto* DRE = dyn_cast<DeclRefExpr>(S))
        {
            const ValueDecl* D = DRE->getDecl();
            a += ",\"name\":" + jstr(D->getNameAsString());
            if (isa<ParmVarDecl>(D) || (isa<VarDecl>(D) && cast<VarDecl>(D)->isLocalVarDecl()) || isa<BindingDecl>(D))
            {
                a += ",\"dk\":" + jstr(isa<ParmVarDecl>(D) ? "param" : "local");
                a += ",\"var\":" + std::to_string(varId(F, D));
            }
            else if (auto* EC = dyn_cast<EnumConstantDecl>(D))
            {
                a += ",\"dk\":\"enumerator\"";
                a += ",\"enum\":" + jstr(qname(cast<NamedDecl>(EC->getDeclContext())));
                a += ",\"val\":" + jstr(llvm::toString(EC->getInitVal(), 10));
            }
            else if (auto* FD = dyn_cast<FunctionDecl>(D))
            {
                a += ",\"dk\":\"function\"";
                a += ",\"q\":" + jstr(cap(qname(FD), 300));
            }
            else if (auto* VD = dyn_cast<VarDecl>(D))
            {
                a += ",\"dk\":\"global\"";
                a += ",\"q\":" + jstr(qname(VD));
                if (VD->getType().isConstQualified())
                    a += ",\"const\":true";
            }
            else
                a += ",\"dk\":\"other\"";
        }
        else if (auto* ME = dyn_cast<MemberExpr>(S))
        {
            const ValueDecl* D = ME->getMemberDecl();
            a += ",\"member\":" + jstr(D->getNameAsString());
            a += ",\"mk\":" + jstr(isa<FieldDecl>(D) ? "field" : (isa<CXXMethodDecl>(D) ? "method" : "other"));
            a += ",\"mcls\":" + jstr(tmplName(D->getDeclContext()));
            if (ME->isArrow())
                a += ",\"arrow\":true";
            if (auto* FD = dyn_cast<FieldDecl>(D))
                if (FD->isMutable())
                    a += ",\"mutable\":true";
        }
        else if (auto* CE = dyn_cast<CXXConstructExpr>(S))
        {
            const CXXConstructorDecl* CD = CE->getConstructor();
            a += ",\"ctor_of\":" + jstr(tmplName(CD->getParent()));
            a += calleeAttrs(CD);
            if (CD->isCopyConstructor())
                a += ",\"copy\":true";
            if (CD->isMoveConstructor())
                a += ",\"move\":true";
            if (isa<CXXTemporaryObjectExpr>(S))
                a += ",\"temp\":true";
        }
        else if (auto* CE = dyn_cast<CallExpr>(S))
        {
            const FunctionDecl* FD = CE->getDirectCallee();
            if (FD)
                a += calleeAttrs(FD);
            else
            {
                a += ",\"unresolved\":true";
                const Expr* C = CE->getCallee()->IgnoreParenImpCasts();
                if (auto* UL = dyn_cast<UnresolvedLookupExpr>(C))
                    a += ",\"callee\":" + jstr(UL->getName().getAsString());
                else if (auto* UM = dyn_cast<UnresolvedMemberExpr>(C))
                    a += ",\"callee\":" + jstr(UM->getMemberName().getAsString());
                else if (auto* DM = dyn_cast<CXXDependentScopeMemberExpr>(C))
                    a += ",\"callee\":" + jstr(DM->getMember().getAsString());
                else if (auto* DS = dyn_cast<DependentScopeDeclRefExpr>(C))
                    a += ",\"callee\":" + jstr(DS->getDeclName().getAsString());
            }
            if (auto* OC = dyn_cast<CXXOperatorCallExpr>(S))
                a += ",\"op\":" + jstr(getOperatorSpelling(OC->getOperator()));
            a += ",\"nargs\":" + std::to_string(CE->getNumArgs());
        }
        else if (auto* BO = dyn_cast<BinaryOperator>(S))
        {
            a += ",\"op\":" + jstr(BO->getOpcodeStr());
        }
        else if (auto* UO = dyn_cast<UnaryOperator>(S))
        {
            a += ",\"op\":" + jstr(UnaryOperator::getOpcodeStr(UO->getOpcode()));
            if (UO->isPostfix())
                a += ",\"postfix\":true";
        }
        else if (auto* IL = dyn_cast<IntegerLiteral>(S))
        {
            a += ",\"val\":" + jstr(llvm::toString(IL->getValue(), 10, false));
        }
        else if (auto* FL = dyn_cast<FloatingLiteral>(S))
        {
            llvm::SmallString<32> buf;
            FL->getValue().toString(buf);
            a += ",\"val\":" + jstr(buf.str());
        }
        else if (auto* BL = dyn_cast<CXXBoolLiteralExpr>(S))
        {
            a += std::string(",\"val\":\"") + (BL->getValue() ? "true" : "false") + "\"";
        }
        else if (auto* SL = dyn_cast<StringLiteral>(S))
        {
            if (SL->isAscii())
                a += ",\"val\":" + jstr(SL->getString());
        }
        else if (auto* CS = dyn_cast<CastExpr>(S))
        {
            a += ",\"ck\":" + jstr(CS->getCastKindName());
            if (auto* EC = dyn_cast<ExplicitCastExpr>(S))
                a += ",\"to\":" + jstr(cap(typeStr(EC->getTypeAsWritten()), 300));
        }
        else if (auto* TE = dyn_cast<CXXThrowExpr>(S))
        {
            if (TE->getSubExpr())
                a += ",\"thrown\":" + jstr(typeStr(TE->getSubExpr()->IgnoreParenImpCasts()->getType()));
            else
                a += ",\"rethrow\":true";
        }
        else if (auto* NE = dyn_cast<CXXNewExpr>(S))
        {
            a += ",\"alloc\":" + jstr(typeStr(NE->getAllocatedType()));
            if (NE->isArray())
                a += ",\"array\":true";
        }
        else if (auto* DE = dyn_cast<CXXDeleteExpr>(S))
        {
            if (DE->isArrayForm())
                a += ",\"array\":true";
        }
        else if (auto* DS = dyn_cast<DeclStmt>(S))
        {
            a += ",\"decls\":[";
            bool first = true;
            for (auto* D : DS->decls())
            {
                if (!first)
                    a += ",";
                first = false;
                if (auto* VD = dyn_cast<VarDecl>(D))
                {
                    a += "{\"var\":" + std::to_string(varId(F, VD));
                    if (VD->getInit())
                    {
                        int c = dump(F, VD->getInit());
                        a += ",\"init\":" + std::to_string(c);
                        if (VD->getInitStyle() != VarDecl::CInit)
                            a += ",\"direct\":true";
                    }
                    a += "}";
                }
                else
                    a += "{\"other\":" + jstr(D->getDeclKindName()) + "}";
            }
            a += "]";
        }
        else if (auto* IS = dyn_cast<IfStmt>(S))
        {
            int c = dump(F, IS->getCond()), t = dump(F, IS->getThen()), e = dump(F, IS->getElse());
            int i = dump(F, IS->getInit());
            a += ",\"cond\":" + std::to_string(c) + ",\"then\":" + std::to_string(t) + ",\"else\":" + std::to_string(e) +
                ",\"init\":" + std::to_string(i);
        }
        else if (auto* FS = dyn_cast<ForStmt>(S))
        {
            int i = dump(F, FS->getInit()), c = dump(F, FS->getCond()), n = dump(F, FS->getInc()), b = dump(F, FS->getBody());
            a += ",\"init\":" + std::to_string(i) + ",\"cond\":" + std::to_string(c) + ",\"inc\":" + std::to_string(n) +
                ",\"body\":" + std::to_string(b);
        }
        else if (auto* WS = dyn_cast<WhileStmt>(S))
        {
            int c = dump(F, WS->getCond()), b = dump(F, WS->getBody());
            a += ",\"cond\":" + std::to_string(c) + ",\"body\":" + std::to_string(b);
        }
        else if (auto* DoS = dyn_cast<DoStmt>(S))
        {
            int b = dump(F, DoS->getBody()), c = dump(F, DoS->getCond());
            a += ",\"cond\":" + std::to_string(c) + ",\"body\":" + std::to_string(b);
        }
        else if (auto* SS = dyn_cast<SwitchStmt>(S))
        {
            int c = dump(F, SS->getCond()), b = dump(F, SS->getBody());
            a += ",\"cond\":" + std::to_string(c) + ",\"body\":" + std::to_string(b);
        }
        else if (auto* CaS = dyn_cast<CaseStmt>(S))
        {
            int v = dump(F, CaS->getLHS());
            a += ",\"value\":" + std::to_string(v);
            Expr::EvalResult R;
            if (CaS->getLHS() && !CaS->getLHS()->isValueDependent() && CaS->getLHS()->EvaluateAsInt(R, Ctx))
                a += ",\"ival\":" + jstr(llvm::toString(R.Val.getInt(), 10));
            int s = dump(F, CaS->getSubStmt());
            a += ",\"sub\":" + std::to_string(s);
        }
        else if (auto* DfS = dyn_cast<DefaultStmt>(S))
        {
            int s = dump(F, DfS->getSubStmt());
            a += ",\"sub\":" + std::to_string(s);
        }
        else if (auto* RS = dyn_cast<ReturnStmt>(S))
        {
            int v = dump(F, RS->getRetValue());
            a += ",\"value\":" + std::to_string(v);
        }
        else if (auto* LE = dyn_cast<LambdaExpr>(S))
        {
            for (const Stmt* C : LE->children())
                kids.push_back(C);
            kids.push_back(LE->getBody());
            kidsDone = true;
        }
        else if (auto* DM = dyn_cast<CXXDependentScopeMemberExpr>(S))
        {
            a += ",\"member\":" + jstr(DM->getMember().getAsString());
        }
        else if (auto* UL = dyn_cast<UnresolvedLookupExpr>(S))
        {
            a += ",\"name\":" + jstr(UL->getName().getAsString());
        }
        else if (auto* DSR = dyn_cast<DependentScopeDeclRefExpr>(S))
        {
            a += ",\"name\":" + jstr(DSR->getDeclName().getAsString());
        }
        else if (auto* UM = dyn_cast<UnresolvedMemberExpr>(S))
        {
            a += ",\"member\":" + jstr(UM->getMemberName().getAsString());
        }
        else if (auto* UC = dyn_cast<CXXUnresolvedConstructExpr>(S))
        {
            a += ",\"to\":" + jstr(cap(typeStr(UC->getTypeAsWritten()), 300));
        }
        else if (auto* TS = dyn_cast<CXXTryStmt>(S))
        {
            a += ",\"handlers\":" + std::to_string(TS->getNumHandlers());
        }
        else if (auto* CSt = dyn_cast<CXXCatchStmt>(S))
        {
            a += ",\"caught\":" + jstr(CSt->getExceptionDecl() ? typeStr(CSt->getCaughtType()) : std::string("..."));
        }
        else if (auto* SN = dyn_cast<SubstNonTypeTemplateParmExpr>(S))
        {
            a += ",\"parm\":" + jstr(SN->getParameter()->getNameAsString());
        }
        else if (auto* DA = dyn_cast<CXXDefaultArgExpr>(S))
        {
            a += ",\"parm\":" + jstr(DA->getParam()->getNameAsString());
        }

        // constant value of any integral / enum rvalue expression that folds
        if (auto* E = dyn_cast<Expr>(S))
        {
            if (!E->isValueDependent() && !E->isTypeDependent() && !E->getType().isNull() &&
                E->getType()->isIntegralOrEnumerationType() && !isa<IntegerLiteral>(E) && !isa<CXXBoolLiteralExpr>(E))
            {
                Expr::EvalResult R;
                if (E->EvaluateAsInt(R, Ctx, Expr::SE_NoSideEffects))
                    a += ",\"cval\":" + jstr(llvm::toString(R.Val.getInt(), 10));
            }
        }

        if (!kidsDone)
            for (const Stmt* C : S->children())
                kids.push_back(C);
        a += ",\"c\":[";
        bool first = true;
        for (const Stmt* C : kids)
        {
            int c = dump(F, C);
            if (!first)
                a += ",";
            first = false;
            a += std::to_string(c);
        }
        a += "]}";
        F.nodes[me] = a;
        return me;
    }

    std::string dumpCFG(FnCtx& F, const FunctionDecl* FD)
    {
        CFG::BuildOptions BO;
        BO.setAllAlwaysAdd();
        BO.AddImplicitDtors = true;
        BO.AddInitializers = true;
        BO.AddTemporaryDtors = false;
        BO.AddEHEdges = false;
        BO.PruneTriviallyFalseEdges = true;
        std::unique_ptr<CFG> G = CFG::buildCFG(FD, FD->getBody(), &Ctx, BO);
        if (!G)
            return "null";
        std::string s = "{\"entry\":" + std::to_string(G->getEntry().getBlockID()) +
            ",\"exit\":" + std::to_string(G->getExit().getBlockID()) + ",\"blocks\":[";
        bool firstB = true;
        for (const CFGBlock* B : *G)
        {
            if (!firstB)
                s += ",";
            firstB = false;
            s += "{\"id\":" + std::to_string(B->getBlockID()) + ",\"elems\":[";
            bool first = true;
            for (const CFGElement& El : *B)
            {
                std::string e;
                if (auto CS = El.getAs<CFGStmt>())
                {
                    const Stmt* St = CS->getStmt();
                    auto it = F.id.find(St);
                    if (it != F.id.end())
                        e = std::to_string(it->second);
                    else if (auto* DS = dyn_cast<DeclStmt>(St))
                    {
                        // synthetic single-declaration DeclStmt made by the CFG builder
                        if (DS->isSingleDecl())
                            if (auto* VD = dyn_cast<VarDecl>(DS->getSingleDecl()))
                                e = "{\"decl\":" + std::to_string(varId(F, VD)) + "}";
                        if (e.empty())
                            e = "{\"unknown\":\"DeclStmt\"}";
                    }
                    else
                        e = "{\"unknown\":" + jstr(St->getStmtClassName()) + "}";
                }
                else if (auto CI = El.getAs<CFGInitializer>())
                {
                    const CXXCtorInitializer* I = CI->getInitializer();
                    e = "{\"init\":";
                    if (I->isAnyMemberInitializer())
                        e += jstr(I->getAnyMember()->getNameAsString());
                    else
                        e += jstr("<base>");
                    auto it = F.id.find(I->getInit());
                    e += ",\"expr\":" + std::to_string(it == F.id.end() ? -1 : it->second) + "}";
                }
                else if (auto AD = El.getAs<CFGAutomaticObjDtor>())
                {
                    e = "{\"dtor\":" + std::to_string(varId(F, AD->getVarDecl())) + "}";
                }
                else if (El.getAs<CFGImplicitDtor>())
                {
                    e = "{\"dtor_other\":true}";
                }
                else
                    continue;
                if (!first)
                    s += ",";
                first = false;
                s += e;
            }
            s += "],\"succs\":[";
            first = true;
            for (auto it = B->succ_begin(); it != B->succ_end(); ++it)
            {
                if (!first)
                    s += ",";
                first = false;
                if (const CFGBlock* R = it->getReachableBlock())
                    s += std::to_string(R->getBlockID());
                else if (const CFGBlock* U = it->getPossiblyUnreachableBlock())
                    s += "{\"pruned\":" + std::to_string(U->getBlockID()) + "}";
                else
                    s += "null";
            }
            s += "]";
            if (const Stmt* T = B->getTerminatorStmt())
            {
                auto it = F.id.find(T);
                s += ",\"term\":" + std::to_string(it == F.id.end() ? -1 : it->second);
                s += ",\"termk\":" + jstr(T->getStmtClassName());
            }
            if (const Stmt* TC = B->getTerminatorCondition())
            {
                auto it = F.id.find(TC);
                s += ",\"termcond\":" + std::to_string(it == F.id.end() ? -1 : it->second);
            }
            if (const Stmt* L = B->getLabel())
            {
                auto it = F.id.find(L);
                s += ",\"label\":" + std::to_string(it == F.id.end() ? -1 : it->second);
            }
            if (B->hasNoReturnElement())
                s += ",\"noreturn\":true";
            s += "}";
        }
        s += "]}";
        return s;
    }

    void emitFunction(const FunctionDecl* FD)
    {
        if (!FD->doesThisDeclarationHaveABody() || FD->isImplicit() || FD->isDefaulted())
            return;
        if (!inRoots(FD->getLocation()))
            return;
        if (!seenF.insert(FD).second)
            return;
        // skip lambda call operators: dumped inline under their LambdaExpr
        if (auto* MD = dyn_cast<CXXMethodDecl>(FD))
            if (MD->getParent()->isLambda())
                return;

        bool dep = FD->isDependentContext() || FD->isTemplated();
        FnCtx F;
        std::string s = "{\"name\":" + jstr(simpleName(FD));
        s += ",\"qname\":" + jstr(qname(FD));
        s += ",\"cls\":" + jstr(tmplName(FD->getDeclContext()));
        s += ",\"tq\":" + jstr(tmplName(FD->getDeclContext()) + "::" + simpleName(FD));
        s += ",\"dep\":" + std::string(dep ? "true" : "false");
        s += ",\"file\":" + jstr(fileOf(FD->getLocation()));
        s += ",\"line\":" + std::to_string(lineOf(FD->getLocation()));
        s += ",\"endline\":" + std::to_string(lineOf(FD->getEndLoc()));
        if (!dep)
        {
            s += ",\"mangled\":" + jstr(mangled(FD));
            s += ",\"cargs\":" + classTargs(FD->getDeclContext());
            if (auto* TA = FD->getTemplateSpecializationArgs())
                s += ",\"targs\":" + targList(TA);
        }
        s += ",\"ret\":" + jstr(typeStr(FD->getReturnType()));
        if (auto* RD = dyn_cast<CXXRecordDecl>(FD->getDeclContext()))
            s += ",\"record\":" + jstr(recName(RD));
        if (auto* MD = dyn_cast<CXXMethodDecl>(FD))
        {
            if (MD->isConst())
                s += ",\"const\":true";
            if (MD->isVirtual())
                s += ",\"virtual\":true";
            if (MD->isStatic())
                s += ",\"static\":true";
            s += ",\"access\":" + jstr(getAccessSpelling(MD->getAccess()));
            if (!dep)
            {
                s += ",\"overrides\":[";
                bool first = true;
                for (auto* O : MD->overridden_methods())
                {
                    if (!first)
                        s += ",";
                    first = false;
                    s += jstr(mangled(O));
                }
                s += "]";
            }
        }
        if (isa<CXXConstructorDecl>(FD))
            s += ",\"ctor\":true";
        if (isa<CXXDestructorDecl>(FD))
            s += ",\"dtor\":true";
        if (auto* FPT = FD->getType()->getAs<FunctionProtoType>())
            if (isNoexceptExceptionSpec(FPT->getExceptionSpecType()) && !isa<CXXDestructorDecl>(FD))
                s += ",\"noexcept\":true";
        if (auto* FPT = FD->getType()->getAs<FunctionProtoType>())
            if (isa<CXXDestructorDecl>(FD) && FPT->getExceptionSpecType() != EST_Unevaluated && FPT->hasNoexceptExceptionSpec())
                s += ",\"noexcept_written\":true";

        s += ",\"params\":[";
        for (unsigned i = 0; i < FD->getNumParams(); i++)
        {
            if (i)
                s += ",";
            s += std::to_string(varId(F, FD->getParamDecl(i)));
        }
        s += "]";

        // constructor initialisers
        std::string inits = "[";
        if (auto* CD = dyn_cast<CXXConstructorDecl>(FD))
        {
            bool first = true;
            for (auto* I : CD->inits())
            {
                if (!I->isWritten() && !I->isInClassMemberInitializer())
                {
                    // implicit default initialisation of a member / base
                    if (!I->getInit())
                        continue;
                }
                int e = dump(F, I->getInit());
                if (!first)
                    inits += ",";
                first = false;
                inits += "{\"member\":";
                if (I->isAnyMemberInitializer())
                    inits += jstr(I->getAnyMember()->getNameAsString());
                else if (I->isBaseInitializer())
                    inits += jstr("<base>");
                else
                    inits += jstr("<delegating>");
                if (I->isBaseInitializer())
                    inits += ",\"base\":" + jstr(typeStr(QualType(I->getBaseClass(), 0)));
                inits += ",\"written\":" + std::string(I->isWritten() ? "true" : "false");
                inits += ",\"expr\":" + std::to_string(e) + "}";
            }
        }
        inits += "]";

        int body = dump(F, FD->getBody());
        std::string cfg = "null";
        if (!dep)
            cfg = dumpCFG(F, FD);

        s += ",\"inits\":" + inits;
        s += ",\"body\":" + std::to_string(body);
        s += ",\"locals\":[";
        for (size_t i = 0; i < F.locals.size(); i++)
        {
            if (i)
                s += ",";
            s += F.locals[i];
        }
        s += "],\"nodes\":[";
        for (size_t i = 0; i < F.nodes.size(); i++)
        {
            if (i)
                s += ",";
            s += F.nodes[i];
        }
        s += "],\"cfg\":" + cfg + "}";
        funcs.push_back(s);
    }

    bool VisitFunctionDecl(FunctionDecl* FD)
    {
        emitFunction(FD);
        return true;
    }

    // ---------------------------------------------------------------- records
    bool VisitCXXRecordDecl(CXXRecordDecl* RD)
    {
        if (!RD->isThisDeclarationADefinition() || RD->isLambda() || RD->isImplicit())
            return true;
        if (!inRoots(recLoc(RD)))
            return true;
        if (!seenR.insert(RD).second)
            return true;
        bool dep = RD->isDependentContext();
        std::string s = "{\"name\":" + jstr(RD->getNameAsString());
        s += ",\"qname\":" + jstr(recName(RD));
        s += ",\"tmpl\":" + jstr(tmplName(RD));
        s += ",\"dep\":" + std::string(dep ? "true" : "false");
        s += ",\"file\":" + jstr(fileOf(recLoc(RD)));
        s += ",\"line\":" + std::to_string(lineOf(recLoc(RD)));
        s += ",\"targs\":" + classTargs(RD);
        if (auto* CS0 = dyn_cast<ClassTemplateSpecializationDecl>(RD))
        {
            // names of the primary template's parameters, in the order of targs
            s += ",\"tparams\":[";
            bool f0 = true;
            for (auto* P : *CS0->getSpecializedTemplate()->getTemplateParameters())
            {
                if (!f0)
                    s += ",";
                f0 = false;
                s += jstr(P->getNameAsString());
            }
            s += "]";
        }
        if (isa<ClassTemplatePartialSpecializationDecl>(RD))
            s += ",\"partial\":true";
        if (auto* CS = dyn_cast<ClassTemplateSpecializationDecl>(RD))
            if (CS->isExplicitSpecialization())
                s += ",\"explicit_spec\":true";
        s += ",\"bases\":[";
        bool first = true;
        for (auto& B : RD->bases())
        {
            if (!first)
                s += ",";
            first = false;
            std::string tn;
            if (auto* BR = B.getType()->getAsCXXRecordDecl())
                tn = tmplName(BR);
            s += "{\"type\":" + jstr(typeStr(B.getType())) + ",\"tmpl\":" + jstr(tn) + "}";
        }
        s += "],\"fields\":[";
        first = true;
        for (auto* FD : RD->fields())
        {
            if (!first)
                s += ",";
            first = false;
            QualType T = FD->getType();
            s += "{\"name\":" + jstr(FD->getNameAsString()) + ",\"type\":" + jstr(typeStr(T));
            s += ",\"line\":" + std::to_string(lineOf(FD->getLocation()));
            s += ",\"access\":" + jstr(getAccessSpelling(FD->getAccess()));
            if (FD->isMutable())
                s += ",\"mutable\":true";
            if (T->isReferenceType())
                s += ",\"ref\":true";
            if (T->isPointerType())
                s += ",\"ptr\":true";
            if (T.getNonReferenceType().isConstQualified())
                s += ",\"const\":true";
            if (FD->hasInClassInitializer())
                s += ",\"nsdmi\":true";
            s += "}";
        }
        s += "],\"static_members\":[";
        first = true;
        for (auto* D : RD->decls())
            if (auto* VD = dyn_cast<VarDecl>(D))
                if (VD->isStaticDataMember())
                {
                    if (!first)
                        s += ",";
                    first = false;
                    s += "{\"name\":" + jstr(VD->getNameAsString()) + ",\"type\":" + jstr(typeStr(VD->getType()));
                    s += ",\"line\":" + std::to_string(lineOf(VD->getLocation()));
                    if (VD->getType().isConstQualified())
                        s += ",\"const\":true";
                    if (VD->isConstexpr())
                        s += ",\"constexpr\":true";
                    s += "}";
                }
        s += "],\"methods\":[";
        first = true;
        for (auto* D : RD->decls())
        {
            const CXXMethodDecl* MD = dyn_cast<CXXMethodDecl>(D);
            if (!MD)
                if (auto* FT = dyn_cast<FunctionTemplateDecl>(D))
                    MD = dyn_cast<CXXMethodDecl>(FT->getTemplatedDecl());
            if (!MD || MD->isImplicit())
                continue;
            if (!first)
                s += ",";
            first = false;
            s += "{\"name\":" + jstr(simpleName(MD));
            s += ",\"line\":" + std::to_string(lineOf(MD->getLocation()));
            s += ",\"access\":" + jstr(getAccessSpelling(MD->getAccess()));
            if (MD->isConst())
                s += ",\"const\":true";
            if (MD->isVirtual())
                s += ",\"virtual\":true";
            if (MD->isStatic())
                s += ",\"static\":true";
            if (isa<CXXConstructorDecl>(MD))
                s += ",\"ctor\":true";
            if (isa<CXXDestructorDecl>(MD))
                s += ",\"dtor\":true";
            if (MD->isDeleted())
                s += ",\"deleted\":true";
            if (MD->isDefaulted())
                s += ",\"defaulted\":true";
            if (!dep)
            {
                std::string m = mangled(MD);
                if (!m.empty())
                    s += ",\"mangled\":" + jstr(m);
            }
            s += "}";
        }
        s += "]}";
        recs.push_back(s);
        return true;
    }

    bool VisitEnumDecl(EnumDecl* ED)
    {
        if (!ED->isThisDeclarationADefinition() || !inRoots(ED->getLocation()))
            return true;
        if (!seenE.insert(ED).second)
            return true;
        std::string s = "{\"name\":" + jstr(ED->getNameAsString()) + ",\"qname\":" + jstr(qname(ED));
        s += ",\"file\":" + jstr(fileOf(ED->getLocation())) + ",\"line\":" + std::to_string(lineOf(ED->getLocation()));
        s += ",\"enumerators\":[";
        bool first = true;
        for (auto* EC : ED->enumerators())
        {
            if (!first)
                s += ",";
            first = false;
            s += "{\"name\":" + jstr(EC->getNameAsString()) + ",\"val\":" + jstr(llvm::toString(EC->getInitVal(), 10)) + "}";
        }
        s += "]}";
        enums.push_back(s);
        return true;
    }

    bool VisitVarDecl(VarDecl* VD)
    {
        if (isa<ParmVarDecl>(VD))
            return true;
        if (!VD->hasGlobalStorage() && VD->getTSCSpec() == TSCS_unspecified)
            return true;
        if (!inRoots(VD->getLocation()))
            return true;
        if (!seenV.insert(VD).second)
            return true;
        QualType T = VD->getType();
        std::string s = "{\"name\":" + jstr(VD->getNameAsString()) + ",\"qname\":" + jstr(qname(VD));
        s += ",\"type\":" + jstr(typeStr(T));
        s += ",\"file\":" + jstr(fileOf(VD->getLocation())) + ",\"line\":" + std::to_string(lineOf(VD->getLocation()));
        s += ",\"dep\":" + std::string(VD->getDeclContext()->isDependentContext() ? "true" : "false");
        std::string where = VD->isStaticLocal() ? "function" : (VD->isStaticDataMember() ? "class" : "namespace");
        s += ",\"where\":" + jstr(where);
        if (auto* FD = dyn_cast<FunctionDecl>(VD->getDeclContext()))
            s += ",\"in\":" + jstr(qname(FD));
        if (auto* RD = dyn_cast<CXXRecordDecl>(VD->getDeclContext()))
            s += ",\"in\":" + jstr(qname(RD));
        bool isConst = T.isConstQualified() || (T->isReferenceType() && false);
        s += ",\"const\":" + std::string(isConst ? "true" : "false");
        s += ",\"constexpr\":" + std::string(VD->isConstexpr() ? "true" : "false");
        s += ",\"thread_local\":" + std::string(VD->getTSCSpec() != TSCS_unspecified ? "true" : "false");
        bool constInit = false;
        if (!VD->getDeclContext()->isDependentContext() && VD->hasInit() && !VD->getInit()->isValueDependent())
            constInit = VD->hasConstantInitialization();
        s += ",\"const_init\":" + std::string(constInit ? "true" : "false");
        s += "}";
        vars.push_back(s);
        return true;
    }
};

class Consumer : public ASTConsumer
{
public:
    void HandleTranslationUnit(ASTContext& Ctx) override
    {
        if (Ctx.getDiagnostics().hasErrorOccurred())
        {
            llvm::errs() << "spectra-facts: compile errors, no facts written\n";
            return;
        }
        Extractor X(Ctx);
        X.TraverseDecl(Ctx.getTranslationUnitDecl());
        std::error_code EC;
        std::unique_ptr<llvm::raw_fd_ostream> fos;
        llvm::raw_ostream* os = &llvm::outs();
        if (OutFile != "-")
        {
            fos.reset(new llvm::raw_fd_ostream(OutFile, EC));
            if (EC)
            {
                llvm::errs() << "cannot open " << OutFile << "\n";
                return;
            }
            os = fos.get();
        }
        auto put = [&](const char* key, std::vector<std::string>& v, bool last) {
            *os << "\"" << key << "\":[\n";
            for (size_t i = 0; i < v.size(); i++)
                *os << v[i] << (i + 1 < v.size() ? ",\n" : "\n");
            *os << "]" << (last ? "\n" : ",\n");
        };
        *os << "{\"format\":1,\n";
        put("records", X.recs, false);
        put("enums", X.enums, false);
        put("vars", X.vars, false);
        put("functions", X.funcs, true);
        *os << "}\n";
    }
};

class Action : public ASTFrontendAction
{
public:
    std::unique_ptr<ASTConsumer> CreateASTConsumer(CompilerInstance&, llvm::StringRef) override
    {
        return std::make_unique<Consumer>();
    }
};

}  // namespace

int main(int argc, const char** argv)
{
    auto Opts = tooling::CommonOptionsParser::create(argc, argv, Cat);
    if (!Opts)
    {
        llvm::errs() << llvm::toString(Opts.takeError()) << "\n";
        return 2;
    }
    tooling::ClangTool Tool(Opts->getCompilations(), Opts->getSourcePathList());
    return Tool.run(tooling::newFrontendActionFactory<Action>().get());
}
